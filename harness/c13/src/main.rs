//! C13 — region values: own writes visible, ordered, and never persistently stale.
//!
//! SCHED engine: the real `region_cached::RegionCached` / `region_local::RegionLocal` code over
//! `SystemHardware::fake(..)` on real OS threads under the baton scheduler. Every harness thread is
//! pinned to exactly one fake processor. Every schedule of every program up to a preemption bound
//! is executed (forked child per schedule); the oracle runs on the harness-known total order of
//! operation starts/ends and of the hooked `ArcSwap` stores.
//!
//! Values are (writer, sequence) pairs: `writer * 16 + seq`; the initial value is writer 0, seq 0.

use std::cell::Cell;
use std::collections::{BTreeMap, BTreeSet};
use std::sync::Mutex;
use std::time::Duration;

use linked::{Family, Object};
use many_cpus::SystemHardware;
use many_cpus::fake::{HardwareBuilder, ProcessorBuilder};
use region_cached::RegionCached;
use region_local::RegionLocal;
use vcommon::serde_json::{Value, json};
use vcommon::{Check, child_job, child_result};

// ------------------------------------------------------------------------------------------
// Programs
// ------------------------------------------------------------------------------------------

#[derive(Clone, Copy, PartialEq, Eq, Debug)]
enum Kind {
    Cached,
    Local,
}

#[derive(Clone, Copy, PartialEq, Eq, Debug)]
enum Op {
    Set,
    Get,
}

#[derive(Clone, Debug)]
struct Program {
    kind: Kind,
    /// processors per memory region; processor ids are assigned consecutively
    regions: Vec<usize>,
    /// true: the thread creates its instance AFTER pinning (the instance holds its region slot —
    /// the fast path); false: BEFORE pinning (the region is looked up on every access)
    fast: bool,
    /// true (mode letter `p`, implies `fast`): the ROOT thread is already pinned to processor 0
    /// when it creates the value, so the first instance of the family is itself a fast-path
    /// instance of region 0 (whatever that instance resolved must not leak into instances that
    /// other threads create in other regions)
    root_pinned: bool,
    /// (processor the thread is pinned to, operations)
    threads: Vec<(usize, Vec<Op>)>,
}

impl Program {
    fn name(&self) -> String {
        format!(
            "{}:{}:{}:{}",
            if self.kind == Kind::Cached { "rc" } else { "rl" },
            self.regions.iter().map(|n| n.to_string()).collect::<Vec<_>>().join("+"),
            if self.root_pinned { "p" } else if self.fast { "f" } else { "l" },
            self.threads
                .iter()
                .map(|(p, ops)| format!("{}@{}", ops.iter().map(|o| if *o == Op::Set { 'S' } else { 'G' }).collect::<String>(), p))
                .collect::<Vec<_>>()
                .join(",")
        )
    }
    fn parse(s: &str) -> Program {
        let parts: Vec<&str> = s.split(':').collect();
        Program {
            kind: if parts[0] == "rc" { Kind::Cached } else { Kind::Local },
            regions: parts[1].split('+').map(|x| x.parse().unwrap()).collect(),
            fast: parts[2] != "l",
            root_pinned: parts[2] == "p",
            threads: parts[3]
                .split(',')
                .map(|t| {
                    let (ops, p) = t.split_once('@').unwrap();
                    (p.parse().unwrap(), ops.chars().map(|c| if c == 'S' { Op::Set } else { Op::Get }).collect())
                })
                .collect(),
        }
    }
    fn region_of_processor(&self, p: usize) -> usize {
        let mut first = 0;
        for (r, n) in self.regions.iter().enumerate() {
            if p < first + n {
                return r;
            }
            first += n;
        }
        panic!("processor {p} does not exist in {:?}", self.regions);
    }
    fn first_processor_of_region(&self, r: usize) -> usize {
        self.regions[..r].iter().sum()
    }
    fn size(&self) -> usize {
        self.threads.iter().map(|(_, o)| o.len()).sum::<usize>() * 10 + self.threads.len()
    }
    fn hardware(&self) -> SystemHardware {
        let mut b = HardwareBuilder::new();
        let mut id = 0_u32;
        for (r, n) in self.regions.iter().enumerate() {
            for _ in 0..*n {
                b = b.processor(ProcessorBuilder::new().id(id).memory_region(r as u32));
                id += 1;
            }
        }
        SystemHardware::fake(b)
    }
}

fn enc(writer: usize, seq: usize) -> u32 {
    (writer * 16 + seq) as u32
}
fn show(v: u32) -> String {
    format!("{}.{}", v / 16, v % 16)
}

// ------------------------------------------------------------------------------------------
// Per-execution event log (fresh in every forked child). Exactly one thread runs at a time, so
// the index of an event in the log is the harness-known total order.
// ------------------------------------------------------------------------------------------

#[derive(Clone, Debug)]
enum Ev {
    SetStart { t: usize, val: u32, region: usize },
    SetEnd { t: usize },
    GetStart { t: usize },
    GetEnd { t: usize, val: u32, region: usize },
    /// A hooked operation of thread `t` (pinned to `region`) is about to execute; nobody else
    /// runs between this record and the operation itself.
    Hook { t: usize, region: usize, label: &'static str },
    /// A modelled wait found its condition false at least once.
    Waited,
}

static LOG: Mutex<Vec<Ev>> = Mutex::new(Vec::new());

thread_local! {
    /// (harness thread id: 0 = root, i+1 = thread i; region the thread is pinned to)
    static ME: Cell<(usize, usize)> = const { Cell::new((0, usize::MAX)) };
}

fn log(e: Ev) {
    LOG.lock().unwrap_or_else(|p| p.into_inner()).push(e);
}

fn hook_point(label: &'static str) {
    vsched::point(label);
    // After `point` returned this thread holds the baton until its next point: the hooked
    // operation executes next, uninterrupted. Record the ones the oracle classifies by.
    if matches!(label, "rc.latest.load" | "rc.latest.store" | "rc.init.store" | "rl.init.cas" | "rl.init.store" | "rl.set.store") {
        let (t, region) = ME.get();
        log(Ev::Hook { t, region, label });
    }
}

fn hook_block_until(label: &'static str, cond: &mut dyn FnMut() -> bool) {
    let mut noted = false;
    vsched::block_until(label, &mut || {
        let ok = cond();
        if !ok && !noted {
            noted = true;
            log(Ev::Waited);
        }
        ok
    });
}

fn hooks() {
    region_cached::verif_hook::install(region_cached::verif_hook::Hooks { point: hook_point, block_until: hook_block_until });
    region_local::verif_hook::install(region_local::verif_hook::Hooks { point: hook_point, block_until: hook_block_until });
}

fn pin_to(hw: &SystemHardware, processor: usize) {
    hw.all_processors().filter(|p| p.id() as usize == processor).expect("fake processor exists").pin_current_thread_to();
}

/// The two libraries behind one face.
enum Inst {
    Cached(RegionCached<u32>),
    Local(RegionLocal<u32>),
}
#[derive(Clone)]
enum Fam {
    Cached(Family<RegionCached<u32>>),
    Local(Family<RegionLocal<u32>>),
}
impl Fam {
    fn instance(&self) -> Inst {
        match self {
            Fam::Cached(f) => Inst::Cached(f.clone().into()),
            Fam::Local(f) => Inst::Local(f.clone().into()),
        }
    }
}
impl Inst {
    fn set(&self, v: u32) {
        match self {
            Inst::Cached(i) => i.set_global(v),
            Inst::Local(i) => i.set_local(v),
        }
    }
    fn get(&self) -> u32 {
        match self {
            Inst::Cached(i) => i.get_cached(),
            Inst::Local(i) => i.get_local(),
        }
    }
}

fn thread_body(hw: SystemHardware, fam: Fam, t: usize, processor: usize, region: usize, ops: Vec<Op>, fast: bool) {
    ME.set((t, region));
    let inst = if fast {
        pin_to(&hw, processor);
        fam.instance()
    } else {
        let i = fam.instance();
        pin_to(&hw, processor);
        i
    };
    let mut seq = 0;
    for op in ops {
        match op {
            Op::Set => {
                seq += 1;
                let val = enc(t, seq);
                log(Ev::SetStart { t, val, region });
                inst.set(val);
                log(Ev::SetEnd { t });
            }
            Op::Get => {
                log(Ev::GetStart { t });
                let val = inst.get();
                log(Ev::GetEnd { t, val, region });
            }
        }
    }
}

fn initial_local() -> u32 {
    0
}

/// One execution: returns the observation string, panics with `ORACLE[key] ..` messages.
fn execution(prog: &Program) -> String {
    LOG.lock().unwrap_or_else(|p| p.into_inner()).clear();
    ME.set((0, usize::MAX));
    let hw = prog.hardware();
    let _ = hw.all_processors(); // fill the hardware's processor cache before any thread runs
    if prog.root_pinned {
        pin_to(&hw, 0);
        ME.set((0, 0));
    }
    // The root thread is not pinned while it creates the value (its own instance therefore looks
    // the region up on every access; the root only uses it after pinning itself, at quiescence).
    let (root_inst, fam) = match prog.kind {
        Kind::Cached => {
            let v = RegionCached::with_hardware(0_u32, hw.clone());
            let f = v.family();
            (Inst::Cached(v), Fam::Cached(f))
        }
        Kind::Local => {
            let v = RegionLocal::with_hardware(initial_local, hw.clone());
            let f = v.family();
            (Inst::Local(v), Fam::Local(f))
        }
    };
    let mut joins = Vec::new();
    for (i, (processor, ops)) in prog.threads.iter().enumerate() {
        let (hw2, fam2, p, r, ops2, fast) = (hw.clone(), fam.clone(), *processor, prog.region_of_processor(*processor), ops.clone(), prog.fast);
        joins.push(vsched::spawn(&format!("t{}", i + 1), move || thread_body(hw2, fam2, i + 1, p, r, ops2, fast)));
    }
    for j in joins {
        if let Err(m) = j.join() {
            panic!("harness thread panicked: {m}");
        }
    }
    // ---- quiescence: every write has returned, no read is in flight ----
    for r in 0..prog.regions.len() {
        pin_to(&hw, prog.first_processor_of_region(r));
        ME.set((0, r));
        // a fresh instance created while pinned (fast path) ...
        let fresh = fam.instance();
        log(Ev::GetStart { t: 0 });
        let val = fresh.get();
        log(Ev::GetEnd { t: 0, val, region: r });
        // ... and the root's own instance (region looked up per access; when the root created it
        // while pinned it belongs to region 0 and is only read there - re-pinning a thread under
        // a fast-path instance is outside the property)
        if !prog.root_pinned || r == 0 {
            log(Ev::GetStart { t: 0 });
            let val = root_inst.get();
            log(Ev::GetEnd { t: 0, val, region: r });
        }
    }
    let events = LOG.lock().unwrap_or_else(|p| p.into_inner()).clone();
    match judge(prog, &events) {
        Ok(obs) => obs,
        Err(v) => panic!("{}", v.join(" ;; ")),
    }
}

// ------------------------------------------------------------------------------------------
// Oracle
// ------------------------------------------------------------------------------------------

#[derive(Clone, Debug)]
struct SetRec {
    t: usize,
    val: u32,
    region: usize,
    start: usize,
    end: usize,
}
#[derive(Clone, Debug)]
struct GetRec {
    t: usize,
    val: u32,
    region: usize,
    start: usize,
    end: usize,
}

/// Which hooked store installed the value that region `region` served just before log index
/// `before`, and did a write race that installation?
fn classify(kind: Kind, ev: &[Ev], region: usize, before: usize) -> &'static str {
    match kind {
        Kind::Cached => {
            let Some((i, inst_t)) = ev[..before].iter().enumerate().rev().find_map(|(i, e)| match e {
                Ev::Hook { t, region: r, label: "rc.init.store" } if *r == region => Some((i, *t)),
                _ => None,
            }) else {
                return "no-install";
            };
            let Some(j) = ev[..i].iter().rposition(|e| matches!(e, Ev::Hook { t, label: "rc.latest.load", .. } if *t == inst_t)) else {
                return "no-load";
            };
            if ev[j..i].iter().any(|e| matches!(e, Ev::Hook { label: "rc.latest.store", .. })) {
                // a set_global published between the initialiser's load of the latest value and
                // its installation into the region slot
                "init-races-set"
            } else {
                "not-invalidated"
            }
        }
        Kind::Local => {
            let Some((i, t_i, label)) = ev[..before].iter().enumerate().rev().find_map(|(i, e)| match e {
                Ev::Hook { t, region: r, label } if *r == region && matches!(*label, "rl.init.store" | "rl.set.store") => Some((i, *t, *label)),
                _ => None,
            }) else {
                return "no-install";
            };
            if label == "rl.set.store" {
                return "served-from-set";
            }
            let Some(j) = ev[..i].iter().rposition(|e| matches!(e, Ev::Hook { t, label: "rl.init.cas", .. } if *t == t_i)) else {
                return "no-cas";
            };
            if ev[j..i].iter().any(|e| matches!(e, Ev::Hook { region: r, label: "rl.set.store", .. } if *r == region)) {
                // a set_local stored between the initialiser's claim of the slot and its blind
                // store of the initial value
                "init-overwrites-set"
            } else {
                "unclassified"
            }
        }
    }
}

fn judge(prog: &Program, ev: &[Ev]) -> Result<String, Vec<String>> {
    let nthreads = prog.threads.len();
    let pre = if prog.kind == Kind::Cached { "" } else { "rl:" };
    let mut sets: Vec<SetRec> = Vec::new();
    let mut gets: Vec<GetRec> = Vec::new();
    let mut open_set: Vec<Option<usize>> = vec![None; nthreads + 1];
    let mut open_get: Vec<Option<usize>> = vec![None; nthreads + 1];
    let mut waited = false;
    let mut latest_loads_in_get: Vec<usize> = vec![0; nthreads + 1];
    let mut reinit = false;
    for (i, e) in ev.iter().enumerate() {
        match e {
            Ev::SetStart { t, val, region } => {
                open_set[*t] = Some(sets.len());
                sets.push(SetRec { t: *t, val: *val, region: *region, start: i, end: usize::MAX });
            }
            Ev::SetEnd { t } => sets[open_set[*t].take().expect("set open")].end = i,
            Ev::GetStart { t } => {
                open_get[*t] = Some(i);
                latest_loads_in_get[*t] = 0;
            }
            Ev::GetEnd { t, val, region } => gets.push(GetRec { t: *t, val: *val, region: *region, start: open_get[*t].take().expect("get open"), end: i }),
            Ev::Hook { t, label, .. } => {
                if *label == "rc.latest.load" && open_get[*t].is_some() {
                    latest_loads_in_get[*t] += 1;
                    if latest_loads_in_get[*t] > 1 {
                        reinit = true;
                    }
                }
            }
            Ev::Waited => waited = true,
        }
    }
    assert!(sets.iter().all(|s| s.end != usize::MAX), "a set did not return");
    let mut violations: Vec<String> = Vec::new();
    let writer_region = |val: u32| -> Option<usize> {
        let w = (val / 16) as usize;
        if w == 0 { None } else { Some(prog.region_of_processor(prog.threads[w - 1].0)) }
    };
    // A set that another thread could legitimately have interposed for reader region `region`.
    let relevant = |s: &SetRec, region: usize| prog.kind == Kind::Cached || s.region == region;

    // ---- every value served was written by somebody (or is the initial value) ----
    for g in &gets {
        if g.val != 0 && !sets.iter().any(|s| s.val == g.val) {
            violations.push(format!("ORACLE[{pre}value-out-of-thin-air] get of thread {} returned {} which nobody wrote", g.t, show(g.val)));
        }
    }
    // ---- region-local isolation: never a value written in another region ----
    if prog.kind == Kind::Local {
        for g in &gets {
            if let Some(wr) = writer_region(g.val) {
                if wr != g.region {
                    violations.push(format!(
                        "ORACLE[rl:cross-region-leak] a get in region {} (thread {}) returned {} which was written in region {wr}",
                        g.region,
                        g.t,
                        show(g.val)
                    ));
                    break;
                }
            }
        }
    }
    // A get that went through the slow path loaded the latest value itself. If, after its LAST
    // such load, it did not install anything itself and still returns an older value, then its
    // `initialize()` found a value installed by another thread, of another generation than the
    // one it expected, and `with_in_region` accepted it: the generation comparison failed. (With
    // a working comparison the thread invalidates and loads again; a stale result after an own
    // latest-load is then only possible when a blind store lands after the thread's OWN
    // installation - the known init-races-set race, classified below.)
    let classify_get = |g: &GetRec| -> &'static str {
        if prog.kind == Kind::Cached {
            let mine = |e: &Ev, l: &str| matches!(e, Ev::Hook { t, label, .. } if *t == g.t && *label == l);
            if let Some(last_load) = ev[g.start..g.end].iter().rposition(|e| mine(e, "rc.latest.load")) {
                if !ev[g.start + last_load..g.end].iter().any(|e| mine(e, "rc.init.store")) {
                    return "accepted-other-generation-installed-by-another-thread";
                }
            }
        }
        classify(prog.kind, ev, g.region, g.end)
    };
    // ---- OWN-WRITE: get after own set, no foreign set overlapping or following the own set
    //      before the get ended => returns the own value ----
    for g in gets.iter().filter(|g| g.t != 0) {
        let Some(own) = sets.iter().filter(|s| s.t == g.t && s.end < g.start).last() else { continue };
        let excused = sets.iter().any(|f| f.t != g.t && relevant(f, g.region) && f.end > own.start && f.start < g.end);
        if !excused && g.val != own.val {
            let class = classify_get(g);
            violations.push(format!(
                "ORACLE[{pre}own-write-lost:{class}] thread {} (region {}) set {} and, with no foreign write overlapping or following it, then read {}",
                g.t,
                g.region,
                show(own.val),
                show(g.val)
            ));
            break;
        }
    }
    // ---- PER-WRITER MONOTONICITY for every reader ----
    'mono: for t in 1..=nthreads {
        let mut max_seq: BTreeMap<u32, u32> = BTreeMap::new();
        for g in gets.iter().filter(|g| g.t == t) {
            let (w, s) = (g.val / 16, g.val % 16);
            let m = max_seq.entry(w).or_insert(0);
            if s < *m {
                let class = classify_get(g);
                let key = if class == "init-races-set" { format!("{pre}writer-order-regression") } else { format!("{pre}writer-order-regression:{class}") };
                violations.push(format!("ORACLE[{key}] reader thread {t} (region {}) observed {w}.{} and later {w}.{s} ({class})", g.region, *m));
                break 'mono;
            }
            *m = s;
        }
    }
    // ---- QUIESCENT FRESHNESS ----
    let mut quiescent: Vec<String> = Vec::new();
    let mut qvals: BTreeSet<u32> = BTreeSet::new();
    let mut stale_reported = false;
    for g in gets.iter().filter(|g| g.t == 0) {
        let candidates: Vec<&SetRec> = sets.iter().filter(|s| relevant(s, g.region)).collect();
        // acceptable: any value whose set was not followed (completed-before) by another set
        let acceptable: Vec<u32> =
            if candidates.is_empty() { vec![0] } else { candidates.iter().filter(|s| !candidates.iter().any(|o| o.start > s.end)).map(|s| s.val).collect() };
        quiescent.push(format!("r{}={}", g.region, show(g.val)));
        qvals.insert(g.val);
        if !acceptable.contains(&g.val) && !stale_reported {
            stale_reported = true;
            let class = classify_get(g);
            violations.push(format!(
                "ORACLE[{pre}stale-after-quiescence:{class}] after all threads were joined a get in region {} returned {} but the last value written is {}",
                g.region,
                show(g.val),
                acceptable.iter().map(|v| show(*v)).collect::<Vec<_>>().join(" or ")
            ));
        }
    }
    if prog.kind == Kind::Cached && qvals.len() > 1 && !stale_reported {
        // Each value is individually a candidate for "last", but there is only one last value:
        // whichever it is, some region serves another one indefinitely.
        // Which region is the stale one is known here: the harness saw the order of the stores
        // to `latest_value`. Classify how that region came to keep its value; everything but
        // the known initialiser-races-set pattern is a witness class of its own.
        let last_store: Option<u32> = ev.iter().enumerate().rev().find_map(|(i, e)| match e {
            Ev::Hook { t, label: "rc.latest.store", .. } => sets.iter().find(|s| s.t == *t && s.start < i && i < s.end).map(|s| s.val),
            _ => None,
        });
        let class = gets.iter().filter(|g| g.t == 0).find(|g| Some(g.val) != last_store).map_or("unclassified", |g| classify_get(g));
        let key = if class == "init-races-set" { "quiescent-regions-disagree".to_string() } else { format!("quiescent-regions-disagree:{class}") };
        violations.push(format!("ORACLE[{key}] after quiescence the regions serve different values: {} (the last value stored is {}; {class})", quiescent.join(","), last_store.map_or("?".into(), show)));
    }
    if !violations.is_empty() {
        return Err(violations);
    }
    let mut obs: Vec<String> = Vec::new();
    for t in 1..=nthreads {
        obs.push(format!("t{t}[{}]", gets.iter().filter(|g| g.t == t).map(|g| show(g.val)).collect::<Vec<_>>().join(",")));
    }
    quiescent.dedup();
    obs.push(format!("q[{}]", quiescent.join(",")));
    if waited {
        obs.push("+waited".into());
    }
    if reinit {
        obs.push("+reinit".into());
    }
    Ok(obs.join(" "))
}

// ------------------------------------------------------------------------------------------
// Runner
// ------------------------------------------------------------------------------------------

fn classify_result(r: &vsched::ExecResult) -> Result<String, Vec<(String, String)>> {
    match r.outcome.as_str() {
        "ok" => match &r.observation {
            Ok(o) => Ok(o.clone()),
            Err(m) => Err(m
                .split(" ;; ")
                .map(|part| {
                    let key = part.strip_prefix("ORACLE[").and_then(|x| x.split(']').next()).map(String::from).unwrap_or_else(|| "engine:panic".to_string());
                    (key, part.to_string())
                })
                .collect()),
        },
        "deadlock" => {
            let mut labels: Vec<String> = r.detail["blocked"]
                .as_array()
                .map(|a| a.iter().filter_map(|x| x.as_str()).map(|s| s.split('@').nth(1).unwrap_or(s).to_string()).collect())
                .unwrap_or_default();
            labels.sort();
            labels.dedup();
            Err(vec![(format!("hang[{}]", labels.join("+")), format!("no enabled thread: {}", r.detail))])
        }
        other => Err(vec![(format!("engine:{other}"), format!("{}", r.detail))]),
    }
}

fn child(job: &str) {
    hooks();
    vcommon::quiet_panics();
    let parts: Vec<&str> = job.split('|').collect();
    let prog = Program::parse(parts[0]);
    let shard: usize = parts[1].parse().unwrap();
    let nshards: usize = parts[2].parse().unwrap();
    let bound: usize = parts[3].parse().unwrap();
    let cfg = vsched::Config { preemption_bound: bound, max_steps: 5_000, exec_timeout: Duration::from_secs(30), record_trace: false, max_executions: u64::MAX, count_all_deviations: false };
    let p2 = prog.clone();
    let body = move || execution(&p2);
    if shard == 0 {
        if let Err(e) = vsched::check_determinism(&cfg, &[], &body) {
            child_result(&json!({"engine_error": e}));
            return;
        }
    }
    let mut outcomes: BTreeMap<String, u64> = BTreeMap::new();
    // key -> (message, schedule, preemptions, count)
    let mut violations: BTreeMap<String, (String, Vec<u8>, usize, u64)> = BTreeMap::new();
    let mut engine_errors = Vec::new();
    let stats = vsched::explore_sharded(&cfg, shard, nshards, &body, |r| match classify_result(r) {
        Ok(obs) => *outcomes.entry(obs).or_default() += 1,
        Err(list) => {
            for (key, msg) in list {
                if key.starts_with("engine:") {
                    engine_errors.push(format!("{key} {msg} schedule={:?}", r.schedule()));
                    continue;
                }
                *outcomes.entry(format!("VIOLATION {key}")).or_default() += 1;
                let cand = (msg, r.schedule(), r.preemptions(), 1);
                match violations.get_mut(&key) {
                    None => {
                        violations.insert(key, cand);
                    }
                    Some(e) => {
                        e.3 += 1;
                        // keep the smallest witness: fewest preemptions, then shortest schedule
                        if (cand.2, cand.1.len()) < (e.2, e.1.len()) {
                            let n = e.3;
                            *e = cand;
                            e.3 = n;
                        }
                    }
                }
            }
        }
    });
    child_result(&json!({
        "prog": parts[0], "executions": stats.executions, "steps": stats.steps, "max_choice_points": stats.max_choice_points,
        "outcomes": outcomes, "engine_errors": engine_errors,
        "violations": violations.iter().map(|(k, (m, s, p, n))| json!({"key": k, "msg": m, "schedule": s, "preemptions": p, "count": n})).collect::<Vec<_>>(),
    }));
}

/// The program family with the preemption bound each program is explored at.
fn programs(thorough: bool) -> Vec<(Program, usize)> {
    let mut v: Vec<(Program, usize)> = Vec::new();
    let mut seen: BTreeSet<String> = BTreeSet::new();
    let mut add = |v: &mut Vec<(Program, usize)>, name: &str, bound: usize| {
        let p = Program::parse(name);
        assert_eq!(p.name(), name, "program name round trip");
        for (proc_, o) in &p.threads {
            let _ = p.region_of_processor(*proc_);
            assert!((1..=3).contains(&o.len()));
        }
        assert!((1..=3).contains(&p.regions.len()) && p.regions.iter().all(|n| (1..=2).contains(n)) && (2..=3).contains(&p.threads.len()));
        if seen.insert(p.name()) {
            v.push((p, bound));
        }
    };
    // ---- core family (both tiers): hand-picked so that every mechanism is raced; every schedule
    //      with <= 2 preemptions ----
    // Fork and thread creation are serialised system-wide in this sandbox (~300 executions/s in
    // total), so the quick tier is budgeted in executions: bound 2 only where a second preemption
    // is known to matter, bound 1 elsewhere; the thorough tier runs everything at >= 2.
    let b2 = 2;
    let b1 = if thorough { 2 } else { 1 };
    for k in ["rc", "rl"] {
        // same region, same processor: a writer racing the region's first access, then re-reading
        add(&mut v, &format!("{k}:1:f:SGG@0,G@0"), b2);
        // two regions: the writer races the FIRST access of the other region
        add(&mut v, &format!("{k}:1+1:f:SG@0,G@1"), b1);
        // two writers in two regions
        add(&mut v, &format!("{k}:1+1:f:SG@0,SG@1"), b1);
        // per-access region lookup instead of the pinned fast path
        add(&mut v, &format!("{k}:1+1:l:S@0,G@1"), b1);
        // three regions, one of them touched by nobody before quiescence
        add(&mut v, &format!("{k}:1+1+1:f:S@0,G@2"), b1);
        // two processors in one region
        add(&mut v, &format!("{k}:2:f:S@0,G@1"), b1);
        // the family is created by a thread that is already pinned (to region 0); the threads
        // create their instances in region 0 and in region 1
        add(&mut v, &format!("{k}:1+1:p:SG@0,SG@1"), b1);
    }
    if thorough {
        // Budget: ~150 executions/s in total in this sandbox, so ~150k executions for ~17 minutes.
        // ---- deep family: every schedule with <= 3 preemptions, the two smallest programs ----
        for k in ["rc", "rl"] {
            for p in ["1+1:l:S@0,G@1", "2:f:S@0,G@1"] {
                add(&mut v, &format!("{k}:{p}"), 3);
            }
            // three threads (a writer racing two initialising readers; the order-regression
            // shape): deviation... these stay at bound 2
            add(&mut v, &format!("{k}:1:f:S@0,G@0,G@0"), 2);
            add(&mut v, &format!("{k}:1:f:SS@0,G@0,GG@0"), 2);
            // pinned creator, other placements
            add(&mut v, &format!("{k}:1+1:p:SG@1,G@0"), 2);
            add(&mut v, &format!("{k}:1+1+1:p:SG@1,SG@2"), 1);
            add(&mut v, &format!("{k}:2+1:p:SG@1,SG@2"), 1);
        }
        // ---- systematic family: every unordered pair of op sequences of 1..=2 operations, on
        //      one region and on two regions, every schedule with <= 1 preemption ----
        let seqs: Vec<String> = {
            let mut out = Vec::new();
            for len in 1..=2_usize {
                for bits in 0..(1_u32 << len) {
                    out.push((0..len).map(|i| if bits >> i & 1 == 1 { 'S' } else { 'G' }).collect::<String>());
                }
            }
            out
        };
        for k in ["rc", "rl"] {
            for (regions, pa, pb) in [("1", 0, 0), ("1+1", 0, 1)] {
                for (i, a) in seqs.iter().enumerate() {
                    for b in seqs.iter().skip(i) {
                        if !a.contains('S') && !b.contains('S') && a.len() + b.len() > 2 {
                            continue; // read-only programs: one representative is enough
                        }
                        add(&mut v, &format!("{k}:{regions}:f:{a}@{pa},{b}@{pb}"), 1);
                    }
                }
            }
            for (a, b) in [("SG", "G"), ("SG", "SG")] {
                for (regions, pa, pb) in [("2", 0, 1), ("1+1+1", 0, 2), ("2+1", 1, 2)] {
                    add(&mut v, &format!("{k}:{regions}:l:{a}@{pa},{b}@{pb}"), 1);
                    add(&mut v, &format!("{k}:{regions}:f:{a}@{pa},{b}@{pb}"), 1);
                }
            }
        }
    }
    v
}

fn main() {
    if let Some(job) = child_job() {
        child(&job);
        return;
    }
    let thorough = vcommon::is_thorough();
    let mut c = Check::new("C13", "model_checking");
    if let Ok(path) = std::env::var("VERIF_REPLAY") {
        let v: Value = vcommon::serde_json::from_str(&std::fs::read_to_string(&path).expect("replay file")).expect("json");
        hooks();
        let prog = Program::parse(v["replay"]["program"].as_str().unwrap());
        let sched: Vec<u8> = v["replay"]["schedule"].as_array().unwrap().iter().map(|x| x.as_u64().unwrap() as u8).collect();
        let cfg = vsched::Config { record_trace: true, ..vsched::Config::default() };
        let r = vsched::run_one(&cfg, &sched, &move || execution(&prog));
        println!("outcome={} detail={} observation={:?}\ntrace={:?}", r.outcome, r.detail, r.observation, r.trace);
        std::process::exit(0);
    }
    if let Ok(guide) = std::env::var("C13_GUIDE") {
        // Directed witness search (development aid, not part of the verdict): a program and a list
        // of wanted context switches "A@label:n>B" = "the trace entry right after the n-th arrival
        // of thread A at `label` belongs to thread B". For each switch the shortest extension of
        // the schedule found so far that realises it is searched by running single executions.
        hooks();
        vcommon::quiet_panics();
        let (pname, steps) = guide.split_once('#').expect("C13_GUIDE=prog#A@label:n>B;...");
        let prog = Program::parse(pname);
        let cfg = vsched::Config { record_trace: true, ..vsched::Config::default() };
        let body = move || execution(&prog);
        let holds = |trace: &[String], step: &str| -> bool {
            if let Some((a, b)) = step.split_once('&') {
                return holds_one(trace, a) && holds_one(trace, b);
            }
            holds_one(trace, step)
        };
        fn holds_one(trace: &[String], step: &str) -> bool {
            if let Some(absent) = step.strip_prefix('!') {
                return !trace.iter().any(|e| e == absent);
            }
            let (from, to) = step.split_once('>').unwrap();
            let (at, n) = from.split_once(':').unwrap();
            let (a, label) = at.split_once('@').unwrap();
            let want = format!("{a}:{label}");
            let n: usize = n.parse().unwrap();
            let mut seen = 0;
            for (i, e) in trace.iter().enumerate() {
                if *e == want {
                    seen += 1;
                    if seen == n {
                        return trace.get(i + 1).is_some_and(|x| x.starts_with(&format!("{to}:")));
                    }
                }
            }
            false
        }
        let steps: Vec<&str> = steps.split(';').collect();
        let mut prefix: Vec<u8> = Vec::new();
        for (k, step) in steps.iter().enumerate() {
            let mut found = false;
            'search: for j in 0..80 {
                for idx in 1..4_u8 {
                    let mut p = prefix.clone();
                    p.extend(std::iter::repeat_n(0, j));
                    p.push(idx);
                    let r = vsched::run_one(&cfg, &p, &body);
                    if r.outcome == "ok" && steps[..=k].iter().all(|s| holds(&r.trace, s)) {
                        prefix = p;
                        found = true;
                        break 'search;
                    }
                }
            }
            if !found {
                println!("GUIDE: step {k} ({step}) not realisable after schedule {prefix:?}");
                std::process::exit(3);
            }
        }
        let r = vsched::run_one(&cfg, &prefix, &body);
        println!("GUIDE schedule={:?} preemptions={} outcome={} observation={:?}\ntrace={:?}", r.schedule(), r.preemptions(), r.outcome, r.observation, r.trace);
        std::process::exit(0);
    }
    let bound_override: Option<usize> = std::env::var("C13_BOUND").ok().and_then(|s| s.parse().ok());
    let only: Option<String> = std::env::var("C13_ONLY").ok();
    let mut progs = programs(thorough);
    if let Some(o) = &only {
        progs.retain(|(p, _)| o.split(';').any(|pat| p.name().contains(pat)));
    }
    let bound = progs.iter().map(|(_, b)| *b).max().unwrap_or(0);
    let min_bound = progs.iter().map(|(_, b)| *b).min().unwrap_or(0);
    let mut jobs = Vec::new();
    for (p, b) in &progs {
        let b = bound_override.unwrap_or(*b);
        // more shards for the expensive programs, so that the fan-out stays balanced
        let nshards = if p.threads.len() >= 3 || b >= 3 { 8 } else { 4 };
        for s in 0..nshards {
            jobs.push(format!("{}|{}|{}|{}", p.name(), s, nshards, b));
        }
    }
    let timeout = Duration::from_secs(if thorough { 3000 } else { 1500 });
    let results = vcommon::run_jobs(&jobs, vcommon::default_parallelism(), timeout);
    let mut per_prog: BTreeMap<String, (u64, u64, BTreeMap<String, u64>)> = BTreeMap::new();
    // key -> best witness (program size, preemptions, schedule length, program, schedule, msg), total count, programs
    let mut found: BTreeMap<String, ((usize, usize, usize), String, Value, String, u64, BTreeSet<String>)> = BTreeMap::new();
    for (job, r) in jobs.iter().zip(&results) {
        let name = job.split('|').next().unwrap().to_string();
        let Some(v) = r.result_json() else {
            if r.timed_out {
                c.cap_hit(&format!("shard {job} did not finish in {}s", timeout.as_secs()));
                continue;
            }
            c.engine_failure(&format!("runner for {job} produced no result: {}", r.stderr.chars().rev().take(300).collect::<String>().chars().rev().collect::<String>()));
        };
        if let Some(e) = v.get("engine_error").and_then(Value::as_str) {
            c.engine_failure(e);
        }
        if let Some(errs) = v["engine_errors"].as_array() {
            if let Some(e) = errs.first() {
                c.engine_failure(&format!("{name}: {e}"));
            }
        }
        let e = per_prog.entry(name.clone()).or_default();
        e.0 += v["executions"].as_u64().unwrap_or(0);
        e.1 += v["steps"].as_u64().unwrap_or(0);
        for (k, n) in v["outcomes"].as_object().into_iter().flatten() {
            *e.2.entry(k.clone()).or_default() += n.as_u64().unwrap_or(0);
        }
        let size = Program::parse(&name).size();
        for viol in v["violations"].as_array().into_iter().flatten() {
            let key = viol["key"].as_str().unwrap().to_string();
            let rank = (size, viol["preemptions"].as_u64().unwrap_or(0) as usize, viol["schedule"].as_array().map_or(0, Vec::len));
            let count = viol["count"].as_u64().unwrap_or(0);
            let msg = viol["msg"].as_str().unwrap_or("").to_string();
            match found.get_mut(&key) {
                None => {
                    found.insert(key, (rank, name.clone(), viol["schedule"].clone(), msg, count, BTreeSet::from([name.clone()])));
                }
                Some(f) => {
                    f.4 += count;
                    f.5.insert(name.clone());
                    if rank < f.0 {
                        f.0 = rank;
                        f.1 = name.clone();
                        f.2 = viol["schedule"].clone();
                        f.3 = msg;
                    }
                }
            }
        }
    }
    for (key, (rank, name, schedule, msg, count, programs)) in &found {
        c.violation(
            key,
            &format!("{name}: {msg} (minimal witness: {} preemptions; {count} schedules in {} programs)", rank.1, programs.len()),
            json!({"program": name, "schedule": schedule, "bound": bound, "preemptions": rank.1, "programs_affected": programs.iter().take(12).collect::<Vec<_>>()}),
        );
    }
    let mut multi = 0;
    let (mut waited, mut reinit) = (0_u64, 0_u64);
    for (name, (execs, steps, outs)) in &per_prog {
        c.evaluations += 1;
        c.states += execs;
        c.transitions += steps;
        c.traces_validated += execs;
        c.distinct_hash(vcommon::hash_str(name));
        if outs.len() > 1 {
            multi += 1;
        }
        for (k, n) in outs {
            c.outcome_n(&format!("{} {k}", name.split(':').next().unwrap_or("")), *n);
            if k.contains("+waited") {
                waited += n;
            }
            if k.contains("+reinit") {
                reinit += n;
            }
        }
        if c.samples.len() < 6 {
            c.sample(json!({"program": name, "schedules": execs, "scheduling_steps": steps, "outcomes": outs}));
        }
    }
    c.rule = format!(
        "programs = {{region_cached, region_local}} x fake hardware (1-3 memory regions, 1-2 processors each) x 2 threads (thorough tier: 2-3), each pinned to one fake processor, instance created after pinning (fast path) or before (per-access region lookup), the family created by an unpinned root or (mode p) by a root already pinned to region 0, each 1-3 operations from {{set(writer,seq), get}}, incl. writers racing the first access of another region; for each program EVERY schedule with at most {bound} preemptions (core programs) / {min_bound} (systematic two-thread family, wide placements and the remaining three-thread programs; thorough tier only) over the hook points (before every ArcSwap load/store/CAS, the generation fetch_add, the per-region clear, OnceLock init, event set; modelled event wait); after joining, the root reads every region twice; states = schedules executed, transitions = scheduling steps; a program is distinct by its name"
    );
    c.extra.insert("programs".into(), json!(progs.len()));
    c.extra.insert("preemption_bound".into(), json!(bound));
    c.extra.insert("programs_with_several_outcomes".into(), json!(multi));
    c.extra.insert("schedules_with_a_modelled_wait_taken".into(), json!(waited));
    c.extra.insert("schedules_with_generation_mismatch_retry".into(), json!(reinit));
    c.assumptions.push("sequentially consistent interleavings at the hook points; code between two points is atomic (arc_swap, rsevents, linked and many_cpus internals run unmodelled inside one step)".into());
    c.assumptions.push("every harness thread is pinned to exactly one fake processor; unpinned threads (the fake platform draws their processor at random) are not explored".into());
    c.assumptions.push("values built by RegionCached::with_hardware / RegionLocal::with_hardware and linked::Family; the region_cached!/region_local! macro layer (linked::thread_local_rc over real hardware) is not exercised".into());
    c.assumptions.push("own-write is only judged when NO foreign set overlaps or follows the own set before the get ended; quiescent freshness accepts any set that no other set started after".into());
    if multi == 0 && only.is_none() {
        c.engine_failure("no program showed more than one outcome (vacuous exploration)");
    }
    c.finish();
}

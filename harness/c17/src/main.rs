//! C17 — multithreaded benchmark runs: exact iteration counts, no use after return.
//!
//! Decides the property by exhaustive enumeration of run configurations (thread count, group
//! count, iteration count), of *fault programs* (which callback panics on which pool threads at
//! which iteration) and of a small family of *callback schedules* (where the healthy threads are
//! when the fault fires, and in which order they are allowed to continue).
//!
//! All callbacks are harness code borrowing one harness-owned block (`Shared`). A controller
//! thread steers them through gates: a thread that is told to hold parks *inside* its callback
//! until the controller has proven (from `/proc/self/task/<tid>/stat`, state `S` for a number of
//! consecutive samples, no progress counter moving) that the thread calling `execute_on` is
//! blocked waiting and every pool thread is parked / blocked / finished / dead. Only then is one
//! more thread released. The oracle itself does not depend on any of that: a violation is recorded
//! only when a callback touches the borrowed block after the flag "execute_on has returned or
//! unwound" was set, which is a use after return on every schedule. The schedule control merely
//! makes the same schedule happen on every run.
//!
//! Thread identity = *position*: the index of the thread's measurement output in the summary of a
//! calibration run on the same pool (stable for the lifetime of a pool), so that a fault program
//! means the same thing on every execution.

use std::cell::Cell;
use std::num::NonZero;
use std::panic::{AssertUnwindSafe, catch_unwind};
use std::sync::{Arc, Condvar, Mutex};
use std::sync::atomic::Ordering::SeqCst;
use std::sync::atomic::{AtomicBool, AtomicU32, AtomicU64, AtomicUsize};
use std::time::{Duration, Instant};

use many_cpus::SystemHardware;
use par_bench::{Run, RunMeta, ThreadPool};
use vcommon::serde_json::{Value, json};

const MAX_SLOTS: usize = 1 << 15;
/// Consecutive identical samples needed to call a thread blocked.
const SAMPLES: usize = 12;
const SAMPLE_INTERVAL: Duration = Duration::from_micros(400);
const POLL: Duration = Duration::from_micros(200);
/// Budget of one case; exceeding it is an engine anomaly, never a verdict.
const CASE_BUDGET: Duration = Duration::from_secs(60);

// ---------------------------------------------------------------------------------------------
// Stages of one thread's part of a run.
// ---------------------------------------------------------------------------------------------

#[derive(Clone, Copy, PartialEq, Eq, Debug)]
enum Kind {
    PrepareThread,
    PrepareIter,
    MeasureBegin,
    Iter,
    MeasureEnd,
    CleanupDrop,
    ThreadStateDrop,
}

const KINDS: [Kind; 7] = [
    Kind::PrepareThread,
    Kind::PrepareIter,
    Kind::MeasureBegin,
    Kind::Iter,
    Kind::MeasureEnd,
    Kind::CleanupDrop,
    Kind::ThreadStateDrop,
];

impl Kind {
    fn name(self) -> &'static str {
        match self {
            Kind::PrepareThread => "prepare_thread",
            Kind::PrepareIter => "prepare_iter",
            Kind::MeasureBegin => "measure_begin",
            Kind::Iter => "iter",
            Kind::MeasureEnd => "measure_end",
            Kind::CleanupDrop => "cleanup_drop",
            Kind::ThreadStateDrop => "thread_state_drop",
        }
    }
    fn from_name(s: &str) -> Option<Kind> {
        KINDS.iter().copied().find(|k| k.name() == s)
    }
    fn idx(self) -> usize {
        KINDS.iter().position(|k| *k == self).unwrap()
    }
    fn per_iteration(self) -> bool {
        matches!(self, Kind::PrepareIter | Kind::Iter | Kind::CleanupDrop)
    }
    fn pre_barrier(self) -> bool {
        matches!(self, Kind::PrepareThread | Kind::PrepareIter)
    }
}

#[derive(Clone, Copy, PartialEq, Eq, Debug)]
struct Stage {
    kind: Kind,
    k: u32,
}

impl Stage {
    fn text(self) -> String {
        if self.kind.per_iteration() { format!("{}#{}", self.kind.name(), self.k) } else { self.kind.name().to_string() }
    }
    fn parse(s: &str) -> Option<Stage> {
        let (name, k) = match s.split_once('#') {
            Some((n, k)) => (n, k.parse().ok()?),
            None => (s, 0),
        };
        Some(Stage { kind: Kind::from_name(name)?, k })
    }
}

fn all_stages(iters: u32) -> Vec<Stage> {
    let mut v = Vec::new();
    for kind in KINDS {
        if kind.per_iteration() {
            for k in 0..iters {
                v.push(Stage { kind, k });
            }
        } else {
            v.push(Stage { kind, k: 0 });
        }
    }
    v
}

#[derive(Clone, PartialEq, Eq, Debug)]
enum Hold {
    /// Nobody holds: every healthy thread runs as far as the library lets it.
    Nobody,
    /// Every healthy thread parks on entry to `stage` (fault programs: the fault's own stage).
    AllHealthy,
    /// Only this position parks (healthy runs: the laggard).
    One(usize),
}

#[derive(Clone, Debug)]
struct Case {
    n: usize,
    g: usize,
    iters: u32,
    fault: Option<Stage>,
    faulty: Vec<usize>,
    hold: Hold,
    hold_stage: Option<Stage>,
    /// Release parked threads in descending position order instead of ascending.
    desc: bool,
}

impl Case {
    fn id(&self) -> String {
        let mut s = format!("n={} g={} iters={}", self.n, self.g, self.iters);
        if let Some(f) = self.fault {
            s += &format!(" fault={}@{:?}", f.text(), self.faulty);
        }
        match &self.hold {
            Hold::Nobody => s += " sched=run-ahead",
            Hold::AllHealthy => {
                s += &format!(" sched=healthy-parked-at-fault-stage,release-{}", if self.desc { "desc" } else { "asc" });
            }
            Hold::One(p) => s += &format!(" sched=laggard{}@{}", p, self.hold_stage.map(Stage::text).unwrap_or_default()),
        }
        s
    }
    fn holds(&self, pos: usize) -> bool {
        match &self.hold {
            Hold::Nobody => false,
            Hold::AllHealthy => !self.faulty.contains(&pos),
            Hold::One(p) => *p == pos,
        }
    }
    fn violation_key_uaf(&self) -> String {
        match self.fault {
            Some(f) => format!(
                "return-while-workers-running:{}-barrier-panic:{}",
                if f.kind.pre_barrier() { "pre" } else { "post" },
                f.kind.name()
            ),
            None => "use-after-return:healthy-run".to_string(),
        }
    }
}

// ---------------------------------------------------------------------------------------------
// Thread identity.
// ---------------------------------------------------------------------------------------------

static NEXT_SLOT: AtomicUsize = AtomicUsize::new(0);
static TID_OF_SLOT: [AtomicU64; MAX_SLOTS] = [const { AtomicU64::new(0) }; MAX_SLOTS];

thread_local! {
    static SLOT: Cell<usize> = const { Cell::new(usize::MAX) };
}

fn gettid() -> u64 {
    // "/proc/thread-self" -> "<pid>/task/<tid>"
    std::fs::read_link("/proc/thread-self")
        .ok()
        .and_then(|p| p.file_name().and_then(|f| f.to_str()).and_then(|s| s.parse().ok()))
        .unwrap_or(0)
}

/// Slot = order in which pool threads first ran any callback in this process (a fresh pool's
/// threads get the next `n` slots: `slot_base..slot_base + n`).
fn my_slot() -> usize {
    SLOT.with(|s| {
        if s.get() == usize::MAX {
            let i = NEXT_SLOT.fetch_add(1, SeqCst);
            if i < MAX_SLOTS {
                TID_OF_SLOT[i].store(gettid(), SeqCst);
            }
            s.set(i);
        }
        s.get()
    })
}

/// Keeps `/proc/self/task/<tid>/stat` open and re-reads it in place (one syscall per sample).
struct TaskProbe {
    file: Option<std::fs::File>,
}

impl TaskProbe {
    fn new(tid: u64) -> Self {
        Self { file: std::fs::File::open(format!("/proc/self/task/{tid}/stat")).ok() }
    }

    /// Scheduler state of the task: None when the task no longer exists.
    fn state(&self) -> Option<char> {
        use std::os::unix::fs::FileExt;
        let mut buf = [0_u8; 512];
        let n = self.file.as_ref()?.read_at(&mut buf, 0).ok()?;
        let text = &buf[..n];
        let close = text.iter().rposition(|b| *b == b')')?;
        let c = *text[close + 1..].iter().find(|b| **b != b' ')? as char;
        if c == 'Z' || c == 'X' { None } else { Some(c) }
    }
}

// ---------------------------------------------------------------------------------------------
// The block borrowed by every callback of one run.
// ---------------------------------------------------------------------------------------------

struct PerPos {
    counts: [AtomicU32; 7],
    /// Completed prepare callbacks (prepare_thread + prepare_iter).
    prepared: AtomicU32,
    progress: AtomicU64,
    parked: AtomicBool,
    at_fault: AtomicBool,
    fault_fired: AtomicBool,
    finished: AtomicBool,
    release: AtomicBool,
    /// Fault programs: this faulty thread has been told to panic now.
    fire: AtomicBool,
    log: Mutex<Vec<(Kind, u32, Option<usize>)>>,
    consumed_iter_states: Mutex<Vec<(usize, u32)>>,
}

struct Shared {
    case: Case,
    run_id: u64,
    slot_base: usize,
    pos_of_slot: Vec<usize>,
    per: Vec<PerPos>,
    gate_mx: Mutex<()>,
    gate_cv: Condvar,
    returned: AtomicBool,
    violations: Mutex<Vec<(String, String)>>,
    anomalies: Mutex<Vec<String>>,
    deadline: Instant,
}

struct ThreadState<'a> {
    sh: &'a Shared,
    pos: usize,
}
struct IterState {
    pos: usize,
    k: u32,
}
struct CleanupState<'a> {
    sh: &'a Shared,
    k: u32,
}

impl Drop for ThreadState<'_> {
    fn drop(&mut self) {
        let pos = self.sh.enter(Kind::ThreadStateDrop, Some(0), None);
        debug_assert_eq!(pos, self.pos);
        self.sh.exit(pos, Kind::ThreadStateDrop, 0);
        self.sh.per[pos].finished.store(true, SeqCst);
    }
}

impl Drop for CleanupState<'_> {
    fn drop(&mut self) {
        let pos = self.sh.enter(Kind::CleanupDrop, Some(self.k), None);
        self.sh.exit(pos, Kind::CleanupDrop, self.k);
    }
}

impl Shared {
    fn new(case: Case, run_id: u64, slot_base: usize, pos_of_slot: Vec<usize>, deadline: Instant) -> Self {
        let per = (0..case.n)
            .map(|_| PerPos {
                counts: [const { AtomicU32::new(0) }; 7],
                prepared: AtomicU32::new(0),
                progress: AtomicU64::new(0),
                parked: AtomicBool::new(false),
                at_fault: AtomicBool::new(false),
                fault_fired: AtomicBool::new(false),
                finished: AtomicBool::new(false),
                release: AtomicBool::new(false),
                fire: AtomicBool::new(false),
                log: Mutex::new(Vec::new()),
                consumed_iter_states: Mutex::new(Vec::new()),
            })
            .collect();
        Self {
            case,
            run_id,
            slot_base,
            pos_of_slot,
            per,
            gate_mx: Mutex::new(()),
            gate_cv: Condvar::new(),
            returned: AtomicBool::new(false),
            violations: Mutex::new(Vec::new()),
            anomalies: Mutex::new(Vec::new()),
            deadline,
        }
    }

    fn violation(&self, key: String, summary: String) {
        if let Ok(mut v) = self.violations.lock() {
            if v.len() < 64 {
                v.push((key, summary));
            }
        }
    }

    fn anomaly(&self, what: String) {
        if let Ok(mut v) = self.anomalies.lock() {
            if v.len() < 16 {
                v.push(what);
            }
        }
    }

    fn pos(&self) -> usize {
        let slot = my_slot();
        match slot.checked_sub(self.slot_base).and_then(|i| self.pos_of_slot.get(i)) {
            Some(p) => *p,
            None => {
                self.violation(
                    "more-threads-than-pool-size".into(),
                    format!("{}: callback ran on thread slot {} of a pool of {}", self.case.id(), slot, self.case.n),
                );
                slot % self.case.n
            }
        }
    }

    /// Parks the calling pool thread until `open()` holds (woken by `wake_gates`); bounded.
    fn park_until(&self, pos: usize, what: &str, open: impl Fn() -> bool) {
        let mut g = self.gate_mx.lock().unwrap_or_else(std::sync::PoisonError::into_inner);
        while !open() {
            if Instant::now() > self.deadline {
                self.anomaly(format!("thread {pos}: {what}"));
                break;
            }
            g = self.gate_cv.wait_timeout(g, Duration::from_millis(100)).unwrap_or_else(std::sync::PoisonError::into_inner).0;
        }
    }

    fn wake_gates(&self) {
        let _g = self.gate_mx.lock().unwrap_or_else(std::sync::PoisonError::into_inner);
        self.gate_cv.notify_all();
    }

    /// Every access of the borrowed block goes through here: THE use-after-return oracle.
    fn touch(&self, pos: usize, kind: Kind, k: u32, at: &str) {
        if self.returned.load(SeqCst) {
            self.violation(
                self.case.violation_key_uaf(),
                format!(
                    "{}: thread at position {} accessed the borrowed state in {} ({}) after execute_on had returned/unwound",
                    self.case.id(),
                    pos,
                    Stage { kind, k }.text(),
                    at
                ),
            );
        }
    }

    /// Entry of a callback. `k`: Some(index) when the caller knows it, None = "next of this kind".
    fn enter(&self, kind: Kind, k: Option<u32>, meta: Option<&RunMeta>) -> usize {
        let pos = self.pos();
        let p = &self.per[pos];
        let k = k.unwrap_or_else(|| p.counts[kind.idx()].load(SeqCst));
        let stage = Stage { kind, k };
        self.touch(pos, kind, k, "entry");
        p.progress.fetch_add(1, SeqCst);

        // Fault injection.
        if self.case.fault == Some(stage)
            && self.case.faulty.contains(&pos)
            && !p.fault_fired.load(SeqCst)
            && !std::thread::panicking()
        {
            p.at_fault.store(true, SeqCst);
            self.park_until(pos, "fault never told to fire", || p.fire.load(SeqCst) || self.returned.load(SeqCst));
            self.touch(pos, kind, k, "fault point");
            p.counts[kind.idx()].fetch_add(1, SeqCst);
            p.fault_fired.store(true, SeqCst);
            p.at_fault.store(false, SeqCst);
            p.progress.fetch_add(1, SeqCst);
            panic!("c17 injected fault in {} at position {}", stage.text(), pos);
        }

        // Gate.
        if self.case.hold_stage == Some(stage) && self.case.holds(pos) && !p.release.load(SeqCst) {
            p.parked.store(true, SeqCst);
            self.park_until(pos, "gate never opened", || p.release.load(SeqCst) || self.returned.load(SeqCst));
            p.progress.fetch_add(1, SeqCst);
            p.parked.store(false, SeqCst);
            self.touch(pos, kind, k, "after the gate opened");
        }

        // What the callback was told.
        if let Some(m) = meta {
            if m.group_count().get() != self.case.g
                || m.thread_count().get() != self.case.n
                || m.iterations() != u64::from(self.case.iters)
                || m.group_index() >= self.case.g
            {
                self.violation(
                    "run-meta-wrong".into(),
                    format!("{}: {} at position {} received {:?}", self.case.id(), stage.text(), pos, m),
                );
            }
        }

        // "All threads released together": nobody starts the measured part before every thread
        // has finished every prepare callback.
        if matches!(kind, Kind::MeasureBegin | Kind::Iter) {
            let want = 1 + self.case.iters;
            for (q, pq) in self.per.iter().enumerate() {
                let have = pq.prepared.load(SeqCst);
                // A thread whose preparation panicked has nothing left to prepare.
                let prep_panicked = pq.fault_fired.load(SeqCst) && self.case.fault.is_some_and(|f| f.kind.pre_barrier());
                if have < want && !prep_panicked {
                    self.violation(
                        "released-before-all-threads-prepared".into(),
                        format!(
                            "{}: position {} entered {} while position {} had completed {} of {} prepare callbacks",
                            self.case.id(),
                            pos,
                            stage.text(),
                            q,
                            have,
                            want
                        ),
                    );
                    break;
                }
            }
        }

        p.counts[kind.idx()].fetch_add(1, SeqCst);
        if let Ok(mut l) = p.log.lock() {
            l.push((kind, k, meta.map(RunMeta::group_index)));
        }
        pos
    }

    fn exit(&self, pos: usize, kind: Kind, k: u32) {
        let p = &self.per[pos];
        self.touch(pos, kind, k, "exit");
        if kind.pre_barrier() {
            p.prepared.fetch_add(1, SeqCst);
        }
        p.progress.fetch_add(1, SeqCst);
    }

    fn token(&self, pos: usize) -> u64 {
        (self.run_id << 16) | pos as u64
    }
}

// ---------------------------------------------------------------------------------------------
// Controller.
// ---------------------------------------------------------------------------------------------

#[derive(Clone, Copy, PartialEq, Eq, Debug)]
enum Cls {
    /// Last borrowed-state access done and blocked again (waiting for the next command).
    Finished,
    Parked,
    AtFault,
    /// Not in harness code, scheduler state S: blocked inside the library (start barrier).
    Blocked,
    Dead,
    Running,
}

struct Controller<'a> {
    sh: &'a Shared,
    probes: Vec<Option<TaskProbe>>, // by position (None = thread not seen yet)
    driver_probe: Option<TaskProbe>,
    driver_tid: &'a AtomicU64,
    driver_done: &'a AtomicBool,
}

enum Snap {
    DriverDone,
    /// Driver blocked, every worker settled.
    Quiet(Vec<Cls>),
    Timeout,
}

impl Controller<'_> {
    fn probe(&mut self, pos: usize) -> Option<&TaskProbe> {
        if self.probes[pos].is_none() {
            let i = self.sh.pos_of_slot.iter().position(|p| *p == pos)?;
            let tid = TID_OF_SLOT.get(self.sh.slot_base + i)?.load(SeqCst);
            if tid == 0 {
                return None;
            }
            self.probes[pos] = Some(TaskProbe::new(tid));
        }
        self.probes[pos].as_ref()
    }

    fn driver_state(&mut self) -> Option<char> {
        if self.driver_probe.is_none() {
            let tid = self.driver_tid.load(SeqCst);
            if tid == 0 {
                return Some('R');
            }
            self.driver_probe = Some(TaskProbe::new(tid));
        }
        self.driver_probe.as_ref().and_then(TaskProbe::state)
    }

    fn classify(&mut self, pos: usize) -> Cls {
        let p = &self.sh.per[pos];
        if p.parked.load(SeqCst) {
            return Cls::Parked;
        }
        if p.at_fault.load(SeqCst) {
            return Cls::AtFault;
        }
        let finished = p.finished.load(SeqCst);
        let Some(probe) = self.probe(pos) else {
            return Cls::Running;
        };
        match probe.state() {
            None => Cls::Dead,
            Some('S') => {
                if finished {
                    Cls::Finished
                } else {
                    Cls::Blocked
                }
            }
            Some(_) => Cls::Running,
        }
    }

    fn progress(&self) -> Vec<u64> {
        self.sh.per.iter().map(|p| p.progress.load(SeqCst)).collect()
    }

    /// Waits until (a) the driver is done, or (b) for SAMPLES consecutive samples the driver was in
    /// state S (when `with_driver`), every worker had one and the same settled class and no
    /// progress counter moved.
    fn settle(&mut self, with_driver: bool) -> Snap {
        let n = self.sh.case.n;
        loop {
            if Instant::now() > self.sh.deadline {
                return Snap::Timeout;
            }
            if with_driver && self.driver_done.load(SeqCst) {
                return Snap::DriverDone;
            }
            let before = self.progress();
            let mut cls = vec![Cls::Running; n];
            let mut ok = true;
            'rounds: for round in 0..SAMPLES {
                if with_driver {
                    if self.driver_done.load(SeqCst) || self.driver_state() != Some('S') {
                        ok = false;
                        break 'rounds;
                    }
                }
                for pos in 0..n {
                    let c = self.classify(pos);
                    if c == Cls::Running || (round > 0 && cls[pos] != c) {
                        ok = false;
                        break 'rounds;
                    }
                    cls[pos] = c;
                }
                std::thread::sleep(SAMPLE_INTERVAL);
            }
            if ok && self.progress() == before && !(with_driver && self.driver_done.load(SeqCst)) {
                return Snap::Quiet(cls);
            }
            std::thread::sleep(SAMPLE_INTERVAL);
        }
    }
}

#[derive(Debug)]
struct CaseResult {
    id: String,
    /// "ok" | "panicked: <msg>" | "hung"
    exec: String,
    outcome: String,
    outputs: Option<Vec<u64>>,
    fault_fired: bool,
    violations: Vec<(String, String)>,
    anomalies: Vec<String>,
    final_classes: String,
    /// Fault programs: what the healthy threads were doing when the (first) fault fired.
    healthy_at_fire: &'static str,
    /// A healthy thread ended up blocked inside the library (start barrier) for good.
    healthy_blocked: bool,
}

/// What the driver thread hands back when `execute_on` returned or unwound.
type DriverOut = (Result<Vec<u64>, String>, ThreadPool);

/// Runs one case on `pool`. Returns the pool when `execute_on` came back. When the run hangs
/// (provably: the caller and every pool thread blocked, nothing left to release) the driver thread
/// is abandoned together with its pool and `exec == "hung"` is reported.
fn run_case(pool: ThreadPool, case: &Case, run_id: u64, slot_base: usize, pos_of_slot: &[usize]) -> (CaseResult, Option<ThreadPool>) {
    let deadline = Instant::now() + CASE_BUDGET;
    // The borrowed block. The driver thread below lends `&*its_arc` to the callbacks for the
    // duration of the execute_on call (a plain non-'static borrow of a local). The block is kept
    // alive afterwards (Arc + deliberate leak) so that a late access is reported by the flag
    // oracle instead of being undefined behaviour inside the harness.
    let shared = Arc::new(Shared::new(case.clone(), run_id, slot_base, pos_of_slot.to_vec(), deadline));
    std::mem::forget(Arc::clone(&shared));
    let driver_tid = Arc::new(AtomicU64::new(0));
    let driver_done = Arc::new(AtomicBool::new(false));

    let driver: std::thread::JoinHandle<DriverOut> = {
        let owned = Arc::clone(&shared);
        let driver_tid = Arc::clone(&driver_tid);
        let driver_done = Arc::clone(&driver_done);
        let (g, iters) = (case.g, case.iters);
        std::thread::spawn(move || {
            let mut pool = pool;
            let sh: &Shared = &owned;
            driver_tid.store(gettid(), SeqCst);
            let run = Run::new()
                .groups(NonZero::new(g).unwrap())
                .prepare_thread(move |a| {
                    let pos = sh.enter(Kind::PrepareThread, Some(0), Some(a.meta()));
                    let st = ThreadState { sh, pos };
                    sh.exit(pos, Kind::PrepareThread, 0);
                    st
                })
                .prepare_iter(move |a| {
                    let pos = sh.enter(Kind::PrepareIter, None, Some(a.meta()));
                    let k = sh.per[pos].counts[Kind::PrepareIter.idx()].load(SeqCst) - 1;
                    if a.thread_state().pos != pos {
                        sh.violation("thread-state-crossed-threads".into(), format!("{}: prepare_iter at {pos}", sh.case.id()));
                    }
                    sh.exit(pos, Kind::PrepareIter, k);
                    IterState { pos, k }
                })
                .measure_wrapper(
                    move |a| {
                        let pos = sh.enter(Kind::MeasureBegin, Some(0), Some(a.meta()));
                        if a.thread_state().pos != pos {
                            sh.violation("thread-state-crossed-threads".into(), format!("{}: measure_begin at {pos}", sh.case.id()));
                        }
                        sh.exit(pos, Kind::MeasureBegin, 0);
                        pos
                    },
                    move |begin_pos: usize| {
                        let pos = sh.enter(Kind::MeasureEnd, Some(0), None);
                        if begin_pos != pos {
                            sh.violation("measure-state-crossed-threads".into(), format!("{}: measure_end at {pos}", sh.case.id()));
                        }
                        sh.exit(pos, Kind::MeasureEnd, 0);
                        sh.token(pos)
                    },
                )
                .iter(move |mut a| {
                    let pos = sh.enter(Kind::Iter, None, Some(a.meta()));
                    let k = sh.per[pos].counts[Kind::Iter.idx()].load(SeqCst) - 1;
                    let it = a.take_iter_state();
                    if let Ok(mut c) = sh.per[pos].consumed_iter_states.lock() {
                        c.push((it.pos, it.k));
                    }
                    if a.thread_state().pos != pos {
                        sh.violation("thread-state-crossed-threads".into(), format!("{}: iter at {pos}", sh.case.id()));
                    }
                    sh.exit(pos, Kind::Iter, k);
                    CleanupState { sh, k }
                });
            let r = catch_unwind(AssertUnwindSafe(|| run.execute_on(&mut pool, u64::from(iters))));
            // The instant execute_on has returned or unwound.
            sh.returned.store(true, SeqCst);
            driver_done.store(true, SeqCst);
            sh.wake_gates();
            // The configured run owns the boxed callbacks the pool threads call through. It is
            // leaked for the same reason the block is kept: a pool thread that is still running
            // after execute_on returned must be reported by the flag, not crash the harness child
            // (without this line the child dies with SIGSEGV on exactly the violating programs).
            std::mem::forget(run);
            let r = match r {
                Ok(mut summary) => Ok(summary.take_measure_outputs().to_vec()),
                Err(p) => Err(vcommon::panic_message(&*p)),
            };
            (r, pool)
        })
    };

    let sh: &Shared = &shared;
    let healthy_at_fire = Cell::new("no-fault");
    let healthy_blocked = Cell::new(false);
    let note_blocked = |cls: &[Cls]| {
        healthy_blocked.set((0..case.n).any(|p| !case.faulty.contains(&p) && cls[p] == Cls::Blocked));
    };
    let snapshot = |exec: &str, classes: String, extra_anomaly: Option<&str>| {
        let mut anomalies = sh.anomalies.lock().map(|v| v.clone()).unwrap_or_default();
        if let Some(a) = extra_anomaly {
            anomalies.push(a.to_string());
        }
        CaseResult {
            id: case.id(),
            exec: exec.to_string(),
            outcome: String::new(),
            outputs: None,
            fault_fired: case.faulty.iter().all(|p| sh.per[*p].fault_fired.load(SeqCst)),
            violations: sh.violations.lock().map(|v| v.clone()).unwrap_or_default(),
            anomalies,
            final_classes: classes,
            healthy_at_fire: healthy_at_fire.get(),
            healthy_blocked: healthy_blocked.get(),
        }
    };

    let mut ctl = Controller { sh, probes: (0..case.n).map(|_| None).collect(), driver_probe: None, driver_tid: &driver_tid, driver_done: &driver_done };
    let mut fired = case.fault.is_none();
    loop {
        match ctl.settle(true) {
            Snap::DriverDone => break,
            Snap::Timeout => {
                return (snapshot("engine-timeout", String::new(), Some("controller gave up: case budget exceeded")), None);
            }
            Snap::Quiet(cls) => {
                if !fired {
                    // Everything is where the schedule wants it; every faulty thread that has not
                    // fired yet must be waiting at its fault point. Faulty threads fire one at a
                    // time, in schedule order, each only while the caller is provably blocked.
                    let mut waiting: Vec<usize> = case.faulty.iter().copied().filter(|p| !sh.per[*p].fault_fired.load(SeqCst)).collect();
                    if !waiting.iter().all(|p| cls[*p] == Cls::AtFault) {
                        let msg = format!("fault point not reached; thread classes {cls:?}");
                        return (snapshot("engine-timeout", format!("{cls:?}"), Some(&msg)), None);
                    }
                    if case.desc {
                        waiting.reverse();
                    }
                    if let Some(p) = waiting.first() {
                        if healthy_at_fire.get() == "no-fault" {
                            let healthy: Vec<Cls> = (0..case.n).filter(|q| !case.faulty.contains(q)).map(|q| cls[q]).collect();
                            healthy_at_fire.set(if healthy.is_empty() {
                                "no-healthy-thread"
                            } else if healthy.contains(&Cls::Parked) {
                                "healthy-parked-inside-callback"
                            } else if healthy.contains(&Cls::Blocked) {
                                "healthy-blocked-at-start-barrier"
                            } else {
                                "healthy-finished"
                            });
                        }
                        sh.per[*p].fire.store(true, SeqCst);
                        sh.wake_gates();
                        let t0 = Instant::now();
                        while !sh.per[*p].fault_fired.load(SeqCst) && t0.elapsed() < Duration::from_secs(20) {
                            std::thread::sleep(POLL);
                        }
                        fired = waiting.len() == 1;
                        continue;
                    }
                    fired = true;
                }
                // The caller is provably blocked waiting and all workers are settled: let one more go.
                let mut parked: Vec<usize> = (0..case.n).filter(|p| cls[*p] == Cls::Parked).collect();
                if case.desc {
                    parked.reverse();
                }
                if let Some(p) = parked.first() {
                    sh.per[*p].release.store(true, SeqCst);
                    sh.wake_gates();
                    let t0 = Instant::now();
                    while sh.per[*p].parked.load(SeqCst) && t0.elapsed() < Duration::from_secs(20) {
                        std::thread::sleep(POLL);
                    }
                    continue;
                }
                // Nothing left to release: execute_on is blocked for good.
                note_blocked(&cls);
                return (snapshot("hung", format!("{cls:?}"), None), None);
            }
        }
    }
    // execute_on has returned / unwound; every gate is open now. Wait until no pool thread can
    // touch the block any more (finished, blocked inside the library for good, or dead).
    let mut final_classes = String::new();
    let all_done = sh.per.iter().all(|p| p.finished.load(SeqCst));
    if all_done {
        final_classes = "all finished".into();
    }
    while !all_done {
        match ctl.settle(false) {
            Snap::Quiet(cls) => {
                if cls.iter().all(|c| matches!(c, Cls::Finished | Cls::Blocked | Cls::Dead)) {
                    note_blocked(&cls);
                    final_classes = format!("{cls:?}");
                    break;
                }
            }
            Snap::Timeout => {
                sh.anomaly("no quiescence after execute_on returned".into());
                break;
            }
            Snap::DriverDone => unreachable!(),
        }
    }
    let (r, pool) = match driver.join() {
        Ok((r, pool)) => (r, Some(pool)),
        Err(_) => (Err("driver thread panicked".to_string()), None),
    };
    let mut res = snapshot(
        &match &r {
            Ok(_) => "ok".to_string(),
            Err(m) => format!("panicked: {m}"),
        },
        final_classes,
        None,
    );
    res.outputs = r.ok();
    (post_checks(sh, res), pool)
}

/// Counting oracles after the run. Exact counts for healthy runs, "never more than" for all.
fn post_checks(sh: &Shared, mut res: CaseResult) -> CaseResult {
    let case = &sh.case;
    let id = case.id();
    let healthy = case.fault.is_none();
    let iters = case.iters;
    let want = |k: Kind| if k.per_iteration() { iters } else { 1 };
    for (pos, p) in sh.per.iter().enumerate() {
        for kind in KINDS {
            let have = p.counts[kind.idx()].load(SeqCst);
            let w = want(kind);
            if have > w || (healthy && res.exec == "ok" && have != w) {
                res.violations.push((
                    format!("callback-count-wrong:{}", kind.name()),
                    format!("{id}: {} ran {have} times on the thread at position {pos}, expected {}{w}", kind.name(), if healthy { "" } else { "at most " }),
                ));
            }
        }
    }
    if !(healthy && res.exec == "ok") {
        if healthy {
            res.violations.push(("healthy-run-failed".into(), format!("{id}: execute_on {}", res.exec)));
        }
        return res;
    }
    // Order per thread: prepare_thread, prepare_iter*, measure_begin, iter*, measure_end, then drops.
    let mut per_group = vec![0_usize; case.g];
    for (pos, p) in sh.per.iter().enumerate() {
        let log = p.log.lock().unwrap();
        let rank = |k: Kind| match k {
            Kind::PrepareThread => 0,
            Kind::PrepareIter => 1,
            Kind::MeasureBegin => 2,
            Kind::Iter => 3,
            Kind::MeasureEnd => 4,
            Kind::CleanupDrop | Kind::ThreadStateDrop => 5,
        };
        if !log.windows(2).all(|w| rank(w[0].0) <= rank(w[1].0)) {
            res.violations.push((
                "callback-order-wrong".into(),
                format!("{id}: position {pos} saw {:?}", log.iter().map(|e| Stage { kind: e.0, k: e.1 }.text()).collect::<Vec<_>>()),
            ));
        }
        let groups: Vec<usize> = log.iter().filter_map(|e| e.2).collect();
        if let Some(first) = groups.first() {
            if groups.iter().any(|x| x != first) {
                res.violations.push(("group-index-changed-within-thread".into(), format!("{id}: position {pos} saw group indexes {groups:?}")));
            }
            if *first < case.g {
                per_group[*first] += 1;
            }
        }
        let mut consumed = p.consumed_iter_states.lock().unwrap().clone();
        consumed.sort_unstable();
        let expect: Vec<(usize, u32)> = (0..iters).map(|k| (pos, k)).collect();
        if consumed != expect {
            res.violations.push(("iteration-state-wrong".into(), format!("{id}: position {pos} consumed iteration states {consumed:?}, expected {expect:?}")));
        }
        let mut dropped: Vec<u32> = log.iter().filter(|e| e.0 == Kind::CleanupDrop).map(|e| e.1).collect();
        dropped.sort_unstable();
        if dropped != (0..iters).collect::<Vec<_>>() {
            res.violations.push(("cleanup-state-drops-wrong".into(), format!("{id}: position {pos} dropped cleanup states {dropped:?}")));
        }
    }
    if per_group.iter().any(|c| *c != case.n / case.g) {
        res.violations.push((
            "groups-uneven".into(),
            format!("{id}: threads per group index {per_group:?}, expected {} each", case.n / case.g),
        ));
    }
    // One measurement output per thread: exactly the values the n measure_end callbacks returned.
    let outs = res.outputs.clone().unwrap_or_default();
    let mut sorted = outs.clone();
    sorted.sort_unstable();
    let expect: Vec<u64> = (0..case.n).map(|p| sh.token(p)).collect();
    if sorted != expect {
        res.violations.push((
            "measure-outputs-wrong".into(),
            format!("{id}: summary holds {} outputs {:?}, expected one per thread {:?}", outs.len(), outs, expect),
        ));
    }
    res
}

// ---------------------------------------------------------------------------------------------
// Child side.
// ---------------------------------------------------------------------------------------------

fn result_json(results: &[CaseResult], note: &str) -> Value {
    json!({
        "note": note,
        "cases": results.iter().map(|r| json!({
            "id": r.id,
            "exec": r.exec,
            "outcome": r.outcome,
            "fault_fired": r.fault_fired,
            "final_classes": r.final_classes,
            "violations": r.violations.iter().map(|(k, s)| json!({"key": k, "summary": s})).collect::<Vec<_>>(),
            "anomalies": r.anomalies,
        })).collect::<Vec<_>>(),
    })
}

/// A fresh pool; its threads will take the next `n` slots.
fn make_pool(n: usize) -> Option<(ThreadPool, usize)> {
    let set = SystemHardware::current().processors().take(NonZero::new(n)?)?;
    let pool = ThreadPool::new(&set);
    Some((pool, NEXT_SLOT.load(SeqCst)))
}

fn classify_hang(r: &mut CaseResult) {
    if r.exec == "hung" {
        if r.id.contains("fault=") {
            r.outcome = format!("fault:execute-hung:workers-blocked-at-start-barrier|{}", r.healthy_at_fire);
        } else {
            r.outcome = "healthy:VIOLATION".into();
            r.violations.push(("healthy-run-deadlock".into(), format!("{}: execute_on and every pool thread are blocked for good ({})", r.id, r.final_classes)));
        }
    } else {
        r.outcome = "engine-anomaly".into();
    }
}

/// Calibration: a free healthy run that is fully checked and yields slot -> position.
fn calibrate(pool: ThreadPool, slot_base: usize, n: usize, g: usize, iters: u32, done: &mut Vec<CaseResult>) -> Option<(ThreadPool, Vec<usize>)> {
    let case = Case { n, g, iters, fault: None, faulty: vec![], hold: Hold::Nobody, hold_stage: None, desc: false };
    let identity: Vec<usize> = (0..n).collect();
    let (mut res, pool) = run_case(pool, &case, 1, slot_base, &identity);
    res.id = format!("{} (calibration)", res.id);
    if pool.is_none() {
        classify_hang(&mut res);
        done.push(res);
        return None;
    }
    res.outcome = if res.violations.is_empty() { "healthy:ok".into() } else { "healthy:VIOLATION".into() };
    let outs = res.outputs.clone();
    let bad = !res.violations.is_empty();
    done.push(res);
    if bad {
        return None;
    }
    // outputs[i] = token of the slot whose result execute_on collected i-th.
    let outs = outs?;
    let mut pos_of_slot = vec![usize::MAX; n];
    for (i, t) in outs.iter().enumerate() {
        let slot = (t & 0xffff) as usize;
        if slot < n {
            pos_of_slot[slot] = i;
        }
    }
    if pos_of_slot.iter().any(|p| *p == usize::MAX) { None } else { Some((pool?, pos_of_slot)) }
}

fn child(job: &str) -> ! {
    let words: Vec<&str> = job.split_whitespace().collect();
    let mut done: Vec<CaseResult> = Vec::new();
    let num = |i: usize| -> usize { words[i].parse().unwrap() };
    fn finish(done: &[CaseResult], note: &str) -> ! {
        vcommon::child_result(&result_json(done, note));
        // Pools are never dropped: nothing to learn from it, and a pool with dead or blocked
        // workers would panic or hang in Drop.
        std::process::exit(0);
    }
    match words[0] {
        // H <n> <g> : every healthy schedule for this pool size and group count, on one pool.
        "H" => {
            let (n, g) = (num(1), num(2));
            let Some((pool, base)) = make_pool(n) else {
                vcommon::child_result(&json!({"error": format!("cannot get {n} processors")}));
                std::process::exit(0);
            };
            let Some((mut pool, pos_of_slot)) = calibrate(pool, base, n, g, 1, &mut done) else {
                finish(&done, "calibration failed");
            };
            let mut run_id = 1;
            for iters in 0..=3_u32 {
                let mut cases = vec![Case { n, g, iters, fault: None, faulty: vec![], hold: Hold::Nobody, hold_stage: None, desc: false }];
                for lag in 0..n {
                    let mut stages = vec![Stage { kind: Kind::PrepareThread, k: 0 }];
                    if iters > 0 {
                        stages.push(Stage { kind: Kind::PrepareIter, k: iters - 1 });
                    }
                    for st in stages {
                        cases.push(Case { n, g, iters, fault: None, faulty: vec![], hold: Hold::One(lag), hold_stage: Some(st), desc: false });
                    }
                }
                for case in cases {
                    run_id += 1;
                    let (mut res, back) = run_case(pool, &case, run_id, base, &pos_of_slot);
                    let Some(back) = back else {
                        classify_hang(&mut res);
                        done.push(res);
                        finish(&done, "ended at a hang");
                    };
                    pool = back;
                    // Positions must be stable for the lifetime of the pool (labelling sanity).
                    if let Some(o) = &res.outputs {
                        if res.violations.is_empty() && !o.iter().enumerate().all(|(i, t)| (t & 0xffff) as usize == i) {
                            res.anomalies.push(format!("output order changed between runs on one pool: {o:?}"));
                        }
                    }
                    let bad = !res.violations.is_empty();
                    res.outcome = if bad { "healthy:VIOLATION".into() } else { "healthy:ok".into() };
                    done.push(res);
                    if bad {
                        finish(&done, "stopped at the first violation");
                    }
                }
            }
            std::mem::forget(pool);
            finish(&done, "complete");
        }
        // F <n> <g> <iters> <stage> <max faulty set size> : every faulty set and schedule for this
        // fault stage, each on a fresh pool.
        "F" => {
            let (n, g, iters) = (num(1), num(2), num(3) as u32);
            let stage = Stage::parse(words[4]).expect("stage");
            let max_set = num(5);
            for faulty in subsets(n, max_set) {
                for sched in schedules(n - faulty.len()) {
                    let Some((pool, base)) = make_pool(n) else {
                        vcommon::child_result(&json!({"error": format!("cannot get {n} processors")}));
                        std::process::exit(0);
                    };
                    let Some((pool, pos_of_slot)) = calibrate(pool, base, n, g, iters, &mut done) else {
                        finish(&done, "calibration failed");
                    };
                    let case = Case {
                        n,
                        g,
                        iters,
                        fault: Some(stage),
                        faulty: faulty.clone(),
                        hold: if sched == "ahead" { Hold::Nobody } else { Hold::AllHealthy },
                        hold_stage: if sched == "ahead" { None } else { Some(stage) },
                        desc: sched == "desc",
                    };
                    let (mut res, back) = run_case(pool, &case, 2, base, &pos_of_slot);
                    if back.is_none() {
                        classify_hang(&mut res);
                        done.push(res);
                        continue;
                    }
                    std::mem::forget(back);
                    let uaf = res.violations.iter().any(|(k, _)| k.starts_with("return-while-workers-running"));
                    let class = if uaf {
                        "VIOLATION:borrowed-state-used-after-return"
                    } else if !res.violations.is_empty() {
                        "VIOLATION:other"
                    } else if res.exec == "ok" {
                        "execute-returned-ok"
                    } else if res.healthy_blocked {
                        "execute-unwound:healthy-workers-blocked-at-start-barrier"
                    } else {
                        "execute-unwound:no-worker-running"
                    };
                    res.outcome = format!("fault:{class}|{}", res.healthy_at_fire);
                    done.push(res);
                }
            }
            finish(&done, "complete");
        }
        other => {
            vcommon::child_result(&json!({"error": format!("unknown job {other}")}));
            std::process::exit(0);
        }
    }
}

// ---------------------------------------------------------------------------------------------
// Parent side.
// ---------------------------------------------------------------------------------------------

fn divisors(n: usize) -> Vec<usize> {
    (1..=n).filter(|g| n % g == 0).collect()
}

fn subsets(n: usize, max: usize) -> Vec<Vec<usize>> {
    let mut v: Vec<Vec<usize>> = (0..n).map(|a| vec![a]).collect();
    if max >= 2 {
        for a in 0..n {
            for b in a + 1..n {
                v.push(vec![a, b]);
            }
        }
    }
    v
}

/// Schedules of a fault program with `healthy` healthy threads.
fn schedules(healthy: usize) -> Vec<&'static str> {
    let mut v = vec!["ahead"];
    if healthy >= 1 {
        v.push("asc");
    }
    if healthy >= 2 {
        v.push("desc");
    }
    v
}

/// One child per (threads, groups, iterations, fault stage); the child enumerates faulty sets and
/// schedules.
fn fault_jobs(n: usize, groups: &[usize], max_subset: usize) -> Vec<String> {
    let mut jobs = Vec::new();
    let groups: std::collections::BTreeSet<usize> = groups.iter().copied().collect();
    for g in groups {
        for iters in 0..=3_u32 {
            for st in all_stages(iters) {
                jobs.push(format!("F {n} {g} {iters} {} {max_subset}", st.text()));
            }
        }
    }
    jobs
}

fn main() {
    vcommon::quiet_panics();
    if let Some(job) = vcommon::child_job() {
        child(&job);
    }
    let mut c = vcommon::Check::new("C17", "fault_enumeration");
    let thorough = vcommon::is_thorough();
    let avail = SystemHardware::current().processors().len();

    let max_healthy = if thorough { 16 } else { 8 };
    if avail < max_healthy {
        c.engine_failure(&format!("need {max_healthy} processors, have {avail}"));
    }
    let mut jobs: Vec<String> = Vec::new();
    // Replay of one job from a replay file.
    if let Ok(path) = std::env::var("VERIF_REPLAY") {
        let v: Value = std::fs::read_to_string(&path).ok().and_then(|t| vcommon::serde_json::from_str(&t).ok()).unwrap_or(Value::Null);
        match v.pointer("/replay/job").and_then(Value::as_str) {
            Some(j) => jobs.push(j.to_string()),
            None => c.engine_failure("replay file has no replay.job"),
        }
        c.cap_hit("replay of a single job");
    } else {
        // Longest jobs first.
        if thorough {
            // full: subsets <= 2, every group count; wide: single faulty thread, groups {1, n}.
            for n in [8, 6, 5, 4, 3, 2, 1] {
                jobs.extend(fault_jobs(n, &divisors(n), 2));
            }
            for n in [16, 12, 7] {
                jobs.extend(fault_jobs(n, &[1, n], 1));
            }
        } else {
            for n in [4, 2, 1] {
                jobs.extend(fault_jobs(n, &[1, n], 1));
            }
        }
        let mut h = Vec::new();
        for n in (1..=max_healthy).rev() {
            for g in divisors(n) {
                h.push(format!("H {n} {g}"));
            }
        }
        // Healthy jobs are the long ones: start them first.
        h.extend(jobs);
        jobs = h;
    }
    c.rule = format!(
        "Healthy runs: every thread count 1..{max_healthy} x every group count dividing it x iterations 0..3 x schedule in \
         {{free, laggard position p parked in prepare_thread, laggard p parked in its last prepare_iter}} for every p; exact \
         per-thread callback counts/order, group split, run meta, one output per thread, nobody enters the measured part before \
         every thread finished preparing. Fault programs, each on a fresh pool in a child process after a checked calibration run: \
         callback kind in {{prepare_thread, prepare_iter#k, measure_begin, iter#k, measure_end, cleanup_drop#k, thread_state_drop}} \
         x every iteration index k < iterations x every set of faulty positions of size <= {} x schedule in {{healthy threads run \
         ahead, healthy threads parked inside the same callback and released one at a time in ascending / descending position order \
         only while execute_on is provably blocked}}; {}. A case is distinct by (threads, groups, iterations, fault stage, faulty set, schedule).",
        if thorough { 2 } else { 1 },
        if thorough {
            "thread counts 1,2,3,4,5,6,8 with every dividing group count and faulty sets <= 2; thread counts 7,12,16 with groups {1,n} and single faulty thread"
        } else {
            "thread counts 1,2,4 with group counts {1, n} and a single faulty thread"
        }
    );
    c.assumptions.push("Linux /proc/self/task/<tid>/stat state 'S' for 12 consecutive samples (400 us apart) with no harness progress counter moving means the thread is blocked; this only steers the schedule, the use-after-return oracle is a flag read and cannot produce a false alarm".into());
    c.assumptions.push("position of a pool thread = index of its output in RunSummary (calibration run on the same pool); stable for a pool, checked on every healthy run".into());
    c.assumptions.push("both faulty threads of a 2-thread fault program panic in the same callback kind and iteration index".into());

    let par = vcommon::default_parallelism().min(16);
    let results = vcommon::run_jobs(&jobs, par, Duration::from_secs(900));
    let mut fault_classes = std::collections::BTreeSet::new();
    let mut engine_errors: Vec<String> = Vec::new();
    let mut max_child_wall = 0.0_f64;
    // (threads, faulty threads, iterations, id) -> violation; registered smallest witness first.
    let mut found: Vec<((usize, usize, usize, String), String, String, Value)> = Vec::new();
    for r in &results {
        max_child_wall = max_child_wall.max(r.wall.as_secs_f64());
        let Some(v) = r.result_json() else {
            engine_errors.push(format!("job `{}` gave no result (timed_out={}, exit={:?}) stderr: {}", r.job, r.timed_out, r.exit_code, r.stderr.chars().rev().take(300).collect::<String>().chars().rev().collect::<String>()));
            continue;
        };
        if let Some(e) = v.get("error").and_then(Value::as_str) {
            engine_errors.push(format!("job `{}`: {e}", r.job));
            continue;
        }
        for case in v["cases"].as_array().cloned().unwrap_or_default() {
            let id = case["id"].as_str().unwrap_or("").to_string();
            let outcome = case["outcome"].as_str().unwrap_or("").to_string();
            c.evaluations += 1;
            let is_fault = id.contains("fault=");
            if !id.contains("(calibration)") {
                c.distinct_hash(vcommon::hash_str(&id));
            }
            c.outcome(&outcome);
            if is_fault {
                fault_classes.insert(outcome.clone());
                if case["fault_fired"].as_bool() != Some(true) && outcome != "engine-anomaly" {
                    engine_errors.push(format!("job `{}`: fault did not fire", r.job));
                }
            }
            for a in case["anomalies"].as_array().cloned().unwrap_or_default() {
                engine_errors.push(format!("job `{}` case `{id}`: {}", r.job, a.as_str().unwrap_or("")));
            }
            if outcome == "engine-anomaly" {
                engine_errors.push(format!("job `{}` case `{id}`: controller gave up", r.job));
            }
            let viols = case["violations"].as_array().cloned().unwrap_or_default();
            let mut seen = std::collections::BTreeSet::new();
            for vi in viols {
                let key = vi["key"].as_str().unwrap_or("?").to_string();
                if seen.insert(key.clone()) {
                    let field = |name: &str| -> usize {
                        id.split_whitespace().find_map(|w| w.strip_prefix(name)).and_then(|v| v.parse().ok()).unwrap_or(0)
                    };
                    let faulty = id.split('@').nth(1).map_or(0, |t| t.split(']').next().unwrap_or("").matches(',').count() + 1);
                    found.push((
                        (field("n="), faulty, field("iters="), id.clone()),
                        key,
                        vi["summary"].as_str().unwrap_or("").to_string(),
                        json!({"job": r.job, "case": id, "exec": case["exec"], "final_thread_classes": case["final_classes"]}),
                    ));
                }
            }
            if c.samples.len() < 3 || (is_fault && c.samples.len() < 6) {
                c.sample(json!({"case": id, "exec": case["exec"], "outcome": outcome, "final_thread_classes": case["final_classes"]}));
            }
        }
    }
    found.sort_by(|a, b| a.0.cmp(&b.0));
    for (_, key, summary, replay) in &found {
        c.violation(key, summary, replay.clone());
    }
    c.extra.insert("child_processes".into(), json!(results.len()));
    c.extra.insert("max_child_wall_s".into(), json!(max_child_wall));
    c.extra.insert("fault_outcome_classes".into(), json!(fault_classes));
    if !engine_errors.is_empty() {
        for e in engine_errors.iter().take(10) {
            eprintln!("engine: {e}");
        }
        c.engine_failure(&format!("{} engine problems, first: {}", engine_errors.len(), engine_errors[0]));
    }
    if std::env::var("VERIF_REPLAY").is_err() {
        // Anti-vacuity: healthy runs happened, and fault programs produced more than one class
        // (at least "unwound with nobody running" and one of hung / blocked-at-barrier / violation).
        if c.outcomes().get("healthy:ok").copied().unwrap_or(0) == 0 && c.violation_count() == 0 {
            c.engine_failure("no healthy run was executed");
        }
        if fault_classes.len() < 2 && c.violation_count() == 0 {
            c.engine_failure(&format!("fault programs produced a single outcome class {fault_classes:?}"));
        }
        if !fault_classes.iter().any(|o| o.ends_with("|healthy-parked-inside-callback")) && c.violation_count() == 0 {
            c.engine_failure("no fault program had a healthy thread parked inside a callback when the fault fired");
        }
    }
    c.finish();
}

//! C12 — linked objects: one family, one instance per thread, each confined to its thread.
//!
//! PART A (programs, sequential): every acyclic dependency graph of `linked::instances!` /
//! `thread_local_rc!` / `thread_local_arc!` statics whose initialisers access their successors,
//! times every first-access order; each program in its own process; non-termination is decided
//! deterministically (the only thread is about to take the registry lock it already holds) and
//! cross-checked by the "did not finish in 5 s, twice" rule on the minimal witnesses.
//! PART B (schedules, SCHED engine): racing first accesses of the statics and acquire / clone /
//! hand-off / drop programs over `InstancePerThreadSync` and `InstancePerThread`, every schedule
//! within the preemption bound, real code on real OS threads.

mod parta;
mod partb;
mod world;

use std::collections::BTreeMap;
use std::time::Duration;

use parta::ProgA;
use partb::ProgB;
use vcommon::serde_json::{Value, json};
use vcommon::{Check, child_job, child_result};
use world::KIND_NAMES;

// ------------------------------------------------------------------------------------------
// children
// ------------------------------------------------------------------------------------------

/// Turns one part-A program result into (outcome class, optional violation (key, message)).
fn classify_a(prog: &ProgA, v: &Value, watchdog: bool) -> (String, Option<(String, String)>) {
    let name = prog.name();
    match v["class"].as_str().unwrap_or("?") {
        "ok" => (format!("A:terminated nested-reads={}", prog.edges().len()), None),
        "selfdeadlock" => {
            let outer = v["outer"].as_u64().map(|x| x as usize);
            let inner = v["inner"].as_u64().map(|x| x as usize);
            let kind = |i: Option<usize>| i.map_or("?", |i| KIND_NAMES[prog.kinds[i] as usize]);
            (
                "A:VIOLATION self-deadlock".into(),
                Some((
                    format!("nested-static-init-deadlock:{}", kind(outer)),
                    format!(
                        "program {name}: the initialiser of static {outer:?} ({}) runs while the global registry lock is held (state {}) and accesses static {inner:?} ({}), whose first access needs the same lock ({}): the only thread of the process blocks forever",
                        kind(outer),
                        v["lock_state"],
                        kind(inner),
                        v["label"].as_str().unwrap_or("?")
                    ),
                )),
            )
        }
        "did-not-finish" => {
            let key = if watchdog {
                // the witnesses are A>B graphs accessed at A first: A's initialiser is the outer one
                format!("nested-static-init-deadlock:{}", KIND_NAMES[prog.kinds[prog.order[0]] as usize])
            } else {
                format!("first-access-did-not-finish:{name}")
            };
            (
                "A:VIOLATION did-not-finish".into(),
                Some((key, format!("program {name}: single-threaded deterministic program did not finish and stayed blocked (sleeping, no processor time consumed) for {} s, twice (normal run: microseconds)", parta::LIMIT.as_secs()))),
            )
        }
        "violation" => {
            let key = v["key"].as_str().unwrap_or("?").to_string();
            (format!("A:VIOLATION {key}"), Some((key, format!("program {name}: {}", v["msg"].as_str().unwrap_or("")))))
        }
        "panic" => {
            let msg = v["msg"].as_str().unwrap_or("");
            (
                "A:VIOLATION panic".into(),
                Some((format!("first-access-panicked:{}", msg.chars().take(40).collect::<String>()), format!("program {name}: {msg}"))),
            )
        }
        other => (format!("A:engine:{other}"), Some((format!("engine:{other}"), format!("program {name}: {v}")))),
    }
}

fn child_a(parts: &[&str]) {
    vcommon::quiet_panics();
    let mut classes: BTreeMap<String, u64> = BTreeMap::new();
    let mut violations: BTreeMap<String, (String, String, u64)> = BTreeMap::new();
    let mut engine_errors: Vec<String> = Vec::new();
    let mut extra_errors: Vec<String> = Vec::new();
    let mut samples: Vec<Value> = Vec::new();
    let (mut programs, mut accesses, mut slow) = (0_u64, 0_u64, 0_u64);
    let mut record = |prog: &ProgA, v: &Value, watchdog: bool| {
        programs += 1;
        accesses += v["accesses"].as_u64().unwrap_or(0);
        if v["slow_once"] == json!(true) {
            slow += 1;
        }
        let (class, viol) = classify_a(prog, v, watchdog);
        *classes.entry(class).or_default() += 1;
        if let Some((key, msg)) = viol {
            if key.starts_with("engine:") || key.starts_with("harness-") {
                engine_errors.push(format!("{key} {msg}"));
            } else {
                let e = violations.entry(key).or_insert((msg, prog.name(), 0));
                e.2 += 1;
            }
        }
        if samples.len() < 2 && !prog.edges().is_empty() {
            samples.push(json!({"program": prog.name(), "result": v}));
        }
    };
    if parts[1] == "watchdog" {
        // The real thing, no detector: the minimal witness must hang for real iff the detector says so.
        let prog = ProgA::parse(parts[2]);
        let real = parta::run_with_rule(&prog, false);
        let detected = parta::run_with_rule(&prog, true);
        let hangs = real["class"] == json!("did-not-finish");
        let says = detected["class"] == json!("selfdeadlock");
        if hangs != says {
            extra_errors.push(format!("detector disagrees with the real run of {}: real={} detector={}", prog.name(), real["class"], detected["class"]));
        }
        record(&prog, &real, true);
    } else {
        let (sel, n, shard, nshards): (&str, usize, usize, usize) = (parts[2], parts[3].parse().unwrap(), parts[4].parse().unwrap(), parts[5].parse().unwrap());
        for (i, prog) in parta::programs(sel, n).iter().enumerate() {
            if i % nshards != shard {
                continue;
            }
            let v = parta::run_with_rule(prog, true);
            record(prog, &v, false);
        }
    }
    engine_errors.extend(extra_errors);
    child_result(&json!({
        "part": "A", "programs": programs, "accesses": accesses, "slow_once": slow, "classes": classes, "engine_errors": engine_errors, "samples": samples,
        "violations": violations.iter().map(|(k, (m, p, n))| json!({"key": k, "msg": m, "program": p, "count": n, "size": ProgA::parse(p).n() * 10 + ProgA::parse(p).edges().len()})).collect::<Vec<_>>(),
    }));
}

fn classify_b(prog: &ProgB, r: &vsched::ExecResult) -> Vec<(String, String)> {
    match r.outcome.as_str() {
        "ok" => match &r.observation {
            Ok(_) => Vec::new(),
            Err(m) if m.starts_with("ORACLE[") => {
                let (body, events) = m.split_once(" || events: ").unwrap_or((m.as_str(), ""));
                body.split(" ## ")
                    .filter_map(|one| one.strip_prefix("ORACLE[").and_then(|x| x.split_once(']')))
                    .map(|(key, rest)| (key.to_string(), format!("{} || events: {events}", rest.trim())))
                    .collect()
            }
            Err(m) => vec![(format!("panic:{}:{}", prog.class(), m.chars().take(40).collect::<String>()), m.clone())],
        },
        "deadlock" => {
            let mut labels: Vec<String> =
                r.detail["blocked"].as_array().map(|a| a.iter().filter_map(|x| x.as_str()).map(|s| s.split('@').nth(1).unwrap_or(s).to_string()).collect()).unwrap_or_default();
            labels.sort();
            labels.dedup();
            vec![(format!("deadlock[{}]:{}", labels.join("+"), prog.class()), format!("no enabled thread: {}", r.detail))]
        }
        other => vec![(format!("engine:{other}"), format!("{}", r.detail))],
    }
}

fn child_b(parts: &[&str]) {
    partb::install_hooks();
    partb::YIELD_AT_LOCAL_POINTS.store(vcommon::is_thorough(), std::sync::atomic::Ordering::SeqCst);
    vcommon::quiet_panics();
    let prog = ProgB::parse(parts[1]);
    let (shard, nshards, bound): (usize, usize, usize) = (parts[2].parse().unwrap(), parts[3].parse().unwrap(), parts[4].parse().unwrap());
    let cfg = vsched::Config { preemption_bound: bound, max_steps: 5_000, exec_timeout: Duration::from_secs(30), record_trace: false, max_executions: u64::MAX, count_all_deviations: false };
    let p2 = prog.clone();
    let body = move || partb::body(&p2);
    if shard == 0 {
        if let Err(e) = vsched::check_determinism(&cfg, &[], &body) {
            child_result(&json!({"part": "B", "engine_error": e}));
            return;
        }
    }
    let mut outcomes: BTreeMap<String, u64> = BTreeMap::new();
    let mut violations: BTreeMap<String, (String, Vec<u8>, u64)> = BTreeMap::new();
    let mut engine_errors = Vec::new();
    let stats = vsched::explore_sharded(&cfg, shard, nshards, &body, |r| {
        let found = classify_b(&prog, r);
        if found.is_empty() {
            *outcomes.entry(r.observation.clone().unwrap_or_default()).or_default() += 1;
        }
        for (key, msg) in found {
            if key.starts_with("engine:") {
                engine_errors.push(format!("{key} {msg} schedule={:?}", r.schedule()));
                continue;
            }
            *outcomes.entry(format!("VIOLATION {key}")).or_default() += 1;
            let sched = r.schedule();
            let e = violations.entry(key).or_insert((msg.clone(), sched.clone(), 0));
            // keep the witness with the fewest non-default choices
            if sched.iter().filter(|c| **c != 0).count() < e.1.iter().filter(|c| **c != 0).count() {
                e.0 = msg;
                e.1 = sched;
            }
            e.2 += 1;
        }
    });
    child_result(&json!({
        "part": "B", "prog": parts[1], "executions": stats.executions, "steps": stats.steps, "max_choice_points": stats.max_choice_points,
        "outcomes": outcomes, "engine_errors": engine_errors,
        "violations": violations.iter().map(|(k, (m, s, n))| json!({"key": k, "msg": m, "schedule": s, "count": n})).collect::<Vec<_>>(),
    }));
}

// ------------------------------------------------------------------------------------------
// program families
// ------------------------------------------------------------------------------------------

fn b_programs(thorough: bool) -> Vec<(ProgB, usize)> {
    let bound = if thorough { 3 } else { 2 };
    let mut v: Vec<(ProgB, usize)> = Vec::new();
    // (a) racing first accesses (the root is one of the racers)
    for kind in 0..3_u8 {
        for (threads, gets) in [(2, 1), (2, 2), (3, 1)] {
            v.push((ProgB::Race { kind, threads, gets }, bound));
        }
    }
    let single = if thorough { 5 } else { 4 };
    // (b) InstancePerThreadSync
    // one thread, incl. the re-entrant factory
    v.extend(partb::wrapper_programs(true, 1, single, single, true, false).into_iter().map(|p| (p, bound)));
    // two threads without hand-off
    v.extend(partb::wrapper_programs(true, 2, 2, 4, false, false).into_iter().map(|p| (p, bound)));
    // two threads with at least one hand-off
    let (p2, t2) = if thorough { (4, 6) } else { (4, 5) };
    v.extend(partb::wrapper_programs(true, 2, p2, t2, false, true).into_iter().map(|p| (p, bound)));
    // targeted: a thread with a live instance of its own drops the last reference to a foreign
    // instance and then acquires again (6 ops: beyond the quick bound of the family above)
    for name in ["sync:arda/as0", "sync:as1/arda"] {
        if !v.iter().any(|(p, _)| p.name() == name) {
            v.push((ProgB::parse(name), bound));
        }
    }
    // three threads with at least one hand-off
    // (always at bound 2: three threads at bound 3 cost tens of thousands of schedules per program)
    let (p3, t3) = if thorough { (3, 5) } else { (2, 4) };
    v.extend(partb::wrapper_programs(true, 3, p3, t3, false, true).into_iter().map(|p| (p, 2)));
    // (c) InstancePerThread: one thread with clones (and the re-entrant factory), two independent threads
    v.extend(partb::wrapper_programs(false, 1, single, single, true, false).into_iter().map(|p| (p, bound)));
    v.extend(partb::wrapper_programs(false, 2, 2, if thorough { 4 } else { 3 }, false, false).into_iter().map(|p| (p, bound)));
    v
}

fn a_jobs(thorough: bool) -> Vec<String> {
    let mut jobs = Vec::new();
    for k in 0..3 {
        jobs.push(format!("A|watchdog|{0}{0}:0>1:01", world::KIND_CHARS[k]));
    }
    let nmax = if thorough { 4 } else { 3 };
    for n in 1..=nmax {
        for sel in ["u0", "u1", "u2"] {
            let shards = match n {
                4 => 16,
                3 => 4,
                _ => 1,
            };
            for s in 0..shards {
                jobs.push(format!("A|detect|{sel}|{n}|{s}|{shards}"));
            }
        }
    }
    // graphs mixing the three macro kinds
    for n in 2..=(if thorough { 3 } else { 2 }) {
        let shards = if n == 3 { 16 } else { 1 };
        for s in 0..shards {
            jobs.push(format!("A|detect|mixed|{n}|{s}|{shards}"));
        }
    }
    jobs
}

// ------------------------------------------------------------------------------------------

fn replay(path: &str) -> ! {
    let v: Value = vcommon::serde_json::from_str(&std::fs::read_to_string(path).expect("replay file")).expect("json");
    let rp = &v["replay"];
    if rp["part"] == json!("A") {
        let prog = ProgA::parse(rp["program"].as_str().unwrap());
        println!("program {}: with detector: {}", prog.name(), parta::run_with_rule(&prog, true));
        println!("program {}: real run, 5 s rule: {}", prog.name(), parta::run_with_rule(&prog, false));
    } else {
        partb::install_hooks();
        let prog = ProgB::parse(rp["program"].as_str().unwrap());
        let sched: Vec<u8> = rp["schedule"].as_array().unwrap().iter().map(|x| x.as_u64().unwrap() as u8).collect();
        let cfg = vsched::Config { record_trace: true, ..vsched::Config::default() };
        let r = vsched::run_one(&cfg, &sched, &move || partb::body(&prog));
        println!("outcome={} detail={} observation={:?}\ntrace={:?}", r.outcome, r.detail, r.observation, r.trace);
    }
    std::process::exit(0);
}

fn main() {
    if let Some(job) = child_job() {
        let parts: Vec<&str> = job.split('|').collect();
        match parts[0] {
            "A" => child_a(&parts),
            _ => child_b(&parts),
        }
        return;
    }
    if let Ok(path) = std::env::var("VERIF_REPLAY") {
        replay(&path);
    }
    let thorough = vcommon::is_thorough();
    let mut c = Check::new("C12", "model_checking");
    if std::env::var_os("C12_LIST").is_some() {
        for (p, b) in b_programs(thorough) {
            println!("{} bound={b}", p.name());
        }
        std::process::exit(0);
    }

    let bprogs = b_programs(thorough);
    let bound = bprogs.iter().map(|(_, b)| *b).max().unwrap_or(0);
    let mut jobs = a_jobs(thorough);
    let only: Option<String> = std::env::var("C12_ONLY").ok();
    for (p, b) in &bprogs {
        let nshards = if thorough && p.nthreads() >= 2 { 4 } else { 1 };
        for s in 0..nshards {
            jobs.push(format!("B|{}|{s}|{nshards}|{b}", p.name()));
        }
    }
    if let Some(o) = &only {
        jobs.retain(|j| o.split(',').any(|alt| j.contains(alt)));
    }
    let timeout = Duration::from_secs(if thorough { 3000 } else { 300 });
    let results = vcommon::run_jobs(&jobs, vcommon::default_parallelism(), timeout);

    // ---- aggregate ----
    let mut a_programs = 0_u64;
    let mut a_accesses = 0_u64;
    let mut a_slow = 0_u64;
    let mut a_samples: Vec<Value> = Vec::new();
    // key -> (size, summary, replay, witnesses)
    let mut viol: BTreeMap<String, Vec<(usize, String, Value)>> = BTreeMap::new();
    let mut per_prog: BTreeMap<String, (u64, u64, BTreeMap<String, u64>)> = BTreeMap::new();
    for (job, r) in jobs.iter().zip(&results) {
        let Some(v) = r.result_json() else {
            if r.timed_out {
                c.cap_hit(&format!("job {job} did not finish in {}s", timeout.as_secs()));
                continue;
            }
            c.engine_failure(&format!("runner for {job} produced no result: {}", r.stderr.chars().rev().take(400).collect::<String>().chars().rev().collect::<String>()));
        };
        if let Some(e) = v.get("engine_error").and_then(Value::as_str) {
            c.engine_failure(&format!("{job}: {e}"));
        }
        if let Some(e) = v["engine_errors"].as_array().and_then(|a| a.first()) {
            c.engine_failure(&format!("{job}: {e}"));
        }
        if v["part"] == json!("A") {
            a_programs += v["programs"].as_u64().unwrap_or(0);
            a_accesses += v["accesses"].as_u64().unwrap_or(0);
            a_slow += v["slow_once"].as_u64().unwrap_or(0);
            for (k, n) in v["classes"].as_object().into_iter().flatten() {
                c.outcome_n(k, n.as_u64().unwrap_or(0));
            }
            for s in v["samples"].as_array().into_iter().flatten() {
                if a_samples.len() < 3 {
                    a_samples.push(s.clone());
                }
            }
            for x in v["violations"].as_array().into_iter().flatten() {
                let watchdog = job.starts_with("A|watchdog");
                viol.entry(x["key"].as_str().unwrap().to_string()).or_default().push((
                    // the real-run witnesses first, then the smallest programs
                    if watchdog { 0 } else { x["size"].as_u64().unwrap_or(99) as usize },
                    format!("{} ({} programs in this job)", x["msg"].as_str().unwrap_or(""), x["count"]),
                    json!({"part": "A", "program": x["program"], "decided_by": if watchdog { "real run: did not finish in 5 s, twice" } else { "detector: only thread about to re-acquire the held registry lock" }}),
                ));
            }
        } else {
            let name = job.split('|').nth(1).unwrap().to_string();
            let e = per_prog.entry(name.clone()).or_default();
            e.0 += v["executions"].as_u64().unwrap_or(0);
            e.1 += v["steps"].as_u64().unwrap_or(0);
            for (k, n) in v["outcomes"].as_object().into_iter().flatten() {
                *e.2.entry(k.clone()).or_default() += n.as_u64().unwrap_or(0);
            }
            let size = ProgB::parse(&name).size();
            for x in v["violations"].as_array().into_iter().flatten() {
                let sched_len = x["schedule"].as_array().map_or(0, Vec::len);
                viol.entry(x["key"].as_str().unwrap().to_string()).or_default().push((
                    size * 1000 + sched_len,
                    format!("program {name}: {} ({} schedules)", x["msg"].as_str().unwrap_or(""), x["count"]),
                    json!({"part": "B", "program": name, "schedule": x["schedule"], "bound": bound}),
                ));
            }
        }
    }
    for (key, mut ws) in viol {
        ws.sort_by(|a, b| (a.0, &a.1).cmp(&(b.0, &b.1)));
        for (_, summary, replay) in ws {
            c.violation(&key, &summary, replay);
        }
    }
    // part A counts: one state per program, one transition per static access
    c.evaluations += a_programs;
    c.states += a_programs;
    c.traces_validated += a_programs;
    c.transitions += a_accesses;
    c.distinct_add(a_programs);
    for s in a_samples {
        c.sample(s);
    }
    let mut multi = 0;
    let mut classes: BTreeMap<String, (u64, u64)> = BTreeMap::new();
    let mut b_samples = 0;
    for (name, (execs, steps, outs)) in &per_prog {
        c.evaluations += 1;
        c.states += execs;
        c.transitions += steps;
        c.traces_validated += execs;
        c.distinct_hash(vcommon::hash_str(name));
        if outs.len() > 1 {
            multi += 1;
        }
        let class = ProgB::parse(name).class();
        let e = classes.entry(class.clone()).or_default();
        e.0 += 1;
        e.1 += execs;
        for (k, n) in outs {
            // outcome classes: keep the evidence readable
            let k2 = if k.starts_with("VIOLATION") { format!("B:{k}") } else { format!("B:{class}:{k}") };
            c.outcome_n(&k2, *n);
        }
        if outs.len() > 1 && b_samples < 3 {
            b_samples += 1;
            c.sample(json!({"program": name, "schedules": execs, "scheduling_steps": steps, "outcomes": outs}));
        }
    }
    let nmax = if thorough { 4 } else { 3 };
    let mixed_max = if thorough { 3 } else { 2 };
    c.rule = format!(
        "PART A: every acyclic directed graph on n <= {nmax} labelled statics of one macro kind (instances!, thread_local_rc!, thread_local_arc!; plus every mixed-kind assignment for n <= {mixed_max}), the initialiser of node i reading each successor j through j's static, x every first-access order (n! permutations), then a second access of every static; one process per program, non-termination decided by 'the only thread re-acquires the held registry lock' and, on the minimal witnesses (2 statics, A>B, per kind), by 'did not finish within 5 s, twice'. \
         PART B: (a) 2-3 threads (the root is one of them) x 1-2 accesses racing the first access of one static per macro kind; (b) InstancePerThreadSync: all well-formed programs up to thread renaming over {{acquire, acquire-with-re-entrant-factory, clone, drop, hand-off to thread j, receive}} (1 thread; 2 threads without hand-off; 2 and 3 threads with at least one hand-off; thread 0 is the root; references still held at thread end are dropped there, newest first); (c) InstancePerThread: same alphabet without hand-off on 1 thread and on 2 independent threads; every schedule with at most {bound} preemptions (three-thread hand-off programs: 2) over the points before each RwLock acquisition, before and after the strong-count test of the reference drop, and before each reference clone{}. states = programs (A) + schedules executed (B); transitions = static accesses (A) + scheduling steps (B)",
        if thorough { ", and before the thread-local registry lookup that precedes the registry lock" } else { " (the point before the purely thread-local registry lookup is not a yield point in this tier)" }
    );
    c.extra.insert("part_a_programs".into(), json!(a_programs));
    c.extra.insert("part_a_slow_retries".into(), json!(a_slow));
    c.extra.insert("part_b_programs".into(), json!(per_prog.len()));
    c.extra.insert("part_b_program_classes".into(), json!(classes.iter().map(|(k, (p, e))| (k.clone(), json!({"programs": p, "schedules": e}))).collect::<BTreeMap<_, _>>()));
    c.extra.insert("preemption_bound".into(), json!(bound));
    c.extra.insert("programs_with_several_outcomes".into(), json!(multi));
    c.assumptions.push("PART B: sequentially consistent interleavings at the hook points; code between two points is atomic (no weak-memory outcomes)".into());
    c.assumptions.push("PART A: the deterministic self-deadlock verdict relies on std::sync::RwLock not being re-entrant (documented: may panic or deadlock); it is cross-checked against the real hang on the minimal witness of each macro kind".into());
    if only.is_none() {
        if a_programs == 0 || per_prog.is_empty() {
            c.engine_failure("a part of the check executed nothing");
        }
        if multi == 0 {
            c.engine_failure("no schedule-explored program showed more than one outcome (vacuous exploration)");
        }
    }
    c.finish();
}

//! PART B — schedules (SCHED engine): racing first accesses of the statics, and programs over the
//! per-thread wrappers (acquire / clone / hand-off to another thread / drop), every schedule within
//! the preemption bound.

use std::any::Any;
use std::cell::{Cell, RefCell};
use std::collections::VecDeque;
use std::ops::Deref;
use std::sync::Mutex;
use std::sync::atomic::Ordering::SeqCst;
use std::thread::ThreadId;

use linked::{InstancePerThread, InstancePerThreadSync, Ref, RefSync};

use crate::world::{self, ADJ, KIND, KIND_CHARS, KIND_NAMES, Obj, REENTER, access, me, world};

// ------------------------------------------------------------------------------------------
// Programs
// ------------------------------------------------------------------------------------------

#[derive(Clone, Copy, Debug, PartialEq, Eq)]
pub enum Op {
    /// acquire a reference for the current thread
    Acq,
    /// acquire while the instance factory re-entrantly acquires (and keeps) a reference
    AcqReentrant,
    /// clone the newest held reference
    Clone,
    /// drop the newest held reference
    Drop,
    /// drop the newest held reference while the thread unwinds from a panic (which the harness
    /// catches): the release path must do its work during unwinding too
    DropUnwinding,
    /// hand the newest held reference to thread j (harness thread index; thread 0 is the root)
    Send(usize),
    /// take a reference out of the own inbox (modelled blocking wait)
    Recv,
}

#[derive(Clone, Debug)]
pub enum ProgB {
    /// `threads` threads race `gets` accesses each of static 0 of the macro kind
    Race { kind: u8, threads: usize, gets: usize },
    /// per-thread op lists over `InstancePerThreadSync` (sync = true) or `InstancePerThread`
    Wrapper { sync: bool, threads: Vec<Vec<Op>> },
}

impl ProgB {
    pub fn name(&self) -> String {
        match self {
            ProgB::Race { kind, threads, gets } => format!("race:{}:{threads}x{gets}", KIND_CHARS[*kind as usize]),
            ProgB::Wrapper { sync, threads } => format!(
                "{}:{}",
                if *sync { "sync" } else { "local" },
                threads
                    .iter()
                    .map(|ops| {
                        ops.iter()
                            .map(|o| match o {
                                Op::Acq => "a".to_string(),
                                Op::AcqReentrant => "A".to_string(),
                                Op::Clone => "c".to_string(),
                                Op::Drop => "d".to_string(),
                                Op::DropUnwinding => "u".to_string(),
                                Op::Send(j) => format!("s{j}"),
                                Op::Recv => "r".to_string(),
                            })
                            .collect::<String>()
                    })
                    .collect::<Vec<_>>()
                    .join("/")
            ),
        }
    }
    pub fn parse(s: &str) -> ProgB {
        let parts: Vec<&str> = s.split(':').collect();
        if parts[0] == "race" {
            let (t, g) = parts[2].split_once('x').unwrap();
            return ProgB::Race {
                kind: KIND_CHARS.iter().position(|k| *k == parts[1].chars().next().unwrap()).unwrap() as u8,
                threads: t.parse().unwrap(),
                gets: g.parse().unwrap(),
            };
        }
        let threads = parts[1]
            .split('/')
            .map(|t| {
                let cs: Vec<char> = t.chars().collect();
                let mut ops = Vec::new();
                let mut i = 0;
                while i < cs.len() {
                    ops.push(match cs[i] {
                        'a' => Op::Acq,
                        'A' => Op::AcqReentrant,
                        'c' => Op::Clone,
                        'd' => Op::Drop,
                        'u' => Op::DropUnwinding,
                        'r' => Op::Recv,
                        's' => {
                            i += 1;
                            Op::Send(cs[i].to_digit(10).unwrap() as usize)
                        }
                        c => panic!("bad op {c}"),
                    });
                    i += 1;
                }
                ops
            })
            .collect();
        ProgB::Wrapper { sync: parts[0] == "sync", threads }
    }
    pub fn class(&self) -> String {
        match self {
            ProgB::Race { kind, .. } => format!("race-first-access:{}", KIND_NAMES[*kind as usize]),
            ProgB::Wrapper { sync: true, .. } => "InstancePerThreadSync".into(),
            ProgB::Wrapper { sync: false, .. } => "InstancePerThread".into(),
        }
    }
    pub fn size(&self) -> usize {
        match self {
            ProgB::Race { threads, gets, .. } => threads * gets,
            ProgB::Wrapper { threads, .. } => threads.iter().map(Vec::len).sum::<usize>() + threads.len(),
        }
    }
    pub fn nthreads(&self) -> usize {
        match self {
            ProgB::Race { threads, .. } => *threads,
            ProgB::Wrapper { threads, .. } => threads.len(),
        }
    }
}

/// Is the per-thread op list family well formed: references exist when used, every hand-off has a
/// matching receive, and the hand-offs cannot deadlock by construction (counts only, so the answer
/// does not depend on the schedule).
fn well_formed(threads: &[Vec<Op>], sync: bool) -> bool {
    let n = threads.len();
    let mut pc = vec![0_usize; n];
    let mut depth = vec![0_i32; n];
    let mut inbox = vec![0_i32; n];
    let mut any_acq = false;
    loop {
        let mut progressed = false;
        for t in 0..n {
            while pc[t] < threads[t].len() {
                match threads[t][pc[t]] {
                    Op::Acq => {
                        depth[t] += 1;
                        any_acq = true;
                    }
                    Op::AcqReentrant => {
                        // only meaningful when the thread has no entry yet: as the very first op
                        if pc[t] != 0 {
                            return false;
                        }
                        depth[t] += 2;
                        any_acq = true;
                    }
                    Op::Clone => {
                        if depth[t] < 1 {
                            return false;
                        }
                        depth[t] += 1;
                    }
                    Op::Drop | Op::DropUnwinding => {
                        if depth[t] < 1 {
                            return false;
                        }
                        depth[t] -= 1;
                    }
                    Op::Send(j) => {
                        if !sync || depth[t] < 1 || j == t || j >= n {
                            return false;
                        }
                        depth[t] -= 1;
                        inbox[j] += 1;
                    }
                    Op::Recv => {
                        if !sync {
                            return false;
                        }
                        if inbox[t] == 0 {
                            break;
                        }
                        inbox[t] -= 1;
                        depth[t] += 1;
                    }
                }
                pc[t] += 1;
                progressed = true;
            }
        }
        if (0..n).all(|t| pc[t] == threads[t].len()) {
            return any_acq && inbox.iter().all(|c| *c == 0);
        }
        if !progressed {
            return false;
        }
    }
}

fn all_sequences(alphabet: &[Op], max_len: usize) -> Vec<Vec<Op>> {
    let mut out = vec![vec![]];
    let mut frontier = vec![vec![]];
    for _ in 0..max_len {
        let mut next = Vec::new();
        for s in &frontier {
            for o in alphabet {
                let mut t: Vec<Op> = s.clone();
                t.push(*o);
                next.push(t);
            }
        }
        out.extend(next.iter().cloned());
        frontier = next;
    }
    out
}

/// Rename threads by a permutation (for symmetry reduction).
fn renamed(threads: &[Vec<Op>], perm: &[usize]) -> Vec<Vec<Op>> {
    // perm[old] = new (0-based)
    let mut out = vec![Vec::new(); threads.len()];
    for (old, ops) in threads.iter().enumerate() {
        out[perm[old]] = ops
            .iter()
            .map(|o| match o {
                Op::Send(j) => Op::Send(perm[*j]),
                x => *x,
            })
            .collect();
    }
    out
}

/// All well-formed wrapper programs with `n` threads, at most `per_thread` explicit ops per thread
/// and at most `total` explicit ops, up to renaming of threads. (References still held at the end
/// of a thread's op list are dropped there, newest first.)
pub fn wrapper_programs(sync: bool, n: usize, per_thread: usize, total: usize, reentrant: bool, handoff: bool) -> Vec<ProgB> {
    let mut alphabet = vec![Op::Acq, Op::Clone, Op::Drop];
    if reentrant {
        alphabet.push(Op::AcqReentrant);
        alphabet.push(Op::DropUnwinding);
    }
    if handoff {
        alphabet.push(Op::Recv);
        for j in 0..n {
            alphabet.push(Op::Send(j));
        }
    }
    let seqs = all_sequences(&alphabet, per_thread);
    let mut out: Vec<ProgB> = Vec::new();
    let mut seen = std::collections::BTreeSet::new();
    let mut idx = vec![0_usize; n];
    let perms = crate::parta::permutations(n);
    'outer: loop {
        let threads: Vec<Vec<Op>> = idx.iter().map(|i| seqs[*i].clone()).collect();
        let ops: usize = threads.iter().map(Vec::len).sum();
        let has_handoff = threads.iter().flatten().any(|o| matches!(o, Op::Send(_)));
        if ops <= total && has_handoff == handoff && threads.iter().all(|t| !t.is_empty()) && well_formed(&threads, sync) {
            let canon = perms.iter().map(|p| ProgB::Wrapper { sync, threads: renamed(&threads, p) }.name()).min().unwrap();
            if seen.insert(canon.clone()) {
                out.push(ProgB::parse(&canon));
            }
        }
        // next index vector
        let mut k = 0;
        loop {
            idx[k] += 1;
            if idx[k] < seqs.len() {
                break;
            }
            idx[k] = 0;
            k += 1;
            if k == n {
                break 'outer;
            }
        }
    }
    out.sort_by_key(|p| (p.size(), p.name()));
    out
}

// ------------------------------------------------------------------------------------------
// Execution bodies (run under vsched in a forked child)
// ------------------------------------------------------------------------------------------

thread_local! {
    /// which branch the reference drop in progress on this thread took (from the hook labels)
    static DROP_BRANCH: Cell<u8> = const { Cell::new(0) };
    /// references acquired re-entrantly from inside the instance factory
    static STASH: RefCell<Vec<Box<dyn Any>>> = const { RefCell::new(Vec::new()) };
}

/// The hook installed into `linked`: remembers which way a reference drop went, then yields.
pub fn hook_point(label: &'static str) {
    match label {
        "ipts.drop.count" | "ipt.drop.count" => DROP_BRANCH.with(|b| b.set(0)),
        "ipts.drop.not_last" | "ipt.drop.not_last" => DROP_BRANCH.with(|b| b.set(1)),
        // The map lock itself is the scheduling point (point-on-acquire stand-in under the cfg):
        // the first write acquisition after the count test of a drop is the clearing one.
        "ipts.map.write" | "ipt.map.write" => DROP_BRANCH.with(|b| {
            if b.get() == 0 {
                b.set(2);
            }
        }),
        // Only thread-local state is touched between this point and the next one (the lock
        // acquisition): yielding here adds schedules but no behaviours. Thorough tier only.
        "si.local.lookup" if !YIELD_AT_LOCAL_POINTS.load(SeqCst) => return,
        _ => {}
    }
    vsched::point(label);
}

pub static YIELD_AT_LOCAL_POINTS: std::sync::atomic::AtomicBool = std::sync::atomic::AtomicBool::new(false);

pub fn install_hooks() {
    linked::verif_hook::install(linked::verif_hook::Hooks { point: hook_point });
}

static INBOX: [Mutex<VecDeque<(RefSync<Obj>, usize)>>; world::MAX_THREADS] = [const { Mutex::new(VecDeque::new()) }; world::MAX_THREADS];

trait Wrapper: Clone + 'static {
    type R: Deref<Target = Obj> + Clone + 'static;
    fn acquire(&self) -> Self::R;
    fn keys(&self) -> Vec<ThreadId>;
    fn send(r: Self::R, id: usize, to: usize);
    fn try_recv(me: usize) -> Option<(Self::R, usize)>;
}

impl Wrapper for InstancePerThreadSync<Obj> {
    type R = RefSync<Obj>;
    fn acquire(&self) -> RefSync<Obj> {
        InstancePerThreadSync::acquire(self)
    }
    fn keys(&self) -> Vec<ThreadId> {
        self.__verif_thread_state_keys()
    }
    fn send(r: RefSync<Obj>, id: usize, to: usize) {
        INBOX[to].lock().unwrap().push_back((r, id));
    }
    fn try_recv(me: usize) -> Option<(RefSync<Obj>, usize)> {
        INBOX[me].lock().unwrap().pop_front()
    }
}

impl Wrapper for InstancePerThread<Obj> {
    type R = Ref<Obj>;
    fn acquire(&self) -> Ref<Obj> {
        InstancePerThread::acquire(self)
    }
    fn keys(&self) -> Vec<ThreadId> {
        self.__verif_thread_state_keys()
    }
    fn send(_: Ref<Obj>, _: usize, _: usize) {
        unreachable!("Ref is not Send");
    }
    fn try_recv(_: usize) -> Option<(Ref<Obj>, usize)> {
        unreachable!("Ref is not Send");
    }
}

fn tracked_acquire<W: Wrapper>(w: &W, t: usize) -> (W::R, usize) {
    let r = w.acquire();
    let id = world().on_acquire(t, r.serial());
    (r, id)
}

fn tracked_drop<R: Deref<Target = Obj>>(t: usize, r: R, id: usize) {
    world().begin_drop(id);
    DROP_BRANCH.with(|b| b.set(0));
    drop(r);
    let branch = DROP_BRANCH.with(Cell::get);
    world().end_drop(t, id, branch);
}

fn interpret<W: Wrapper>(w: &W, t: usize, ops: &[Op]) {
    world::ME.with(|m| m.set(t));
    let mut stack: Vec<(W::R, usize)> = Vec::new();
    for op in ops {
        match op {
            Op::Acq => stack.push(tracked_acquire(w, t)),
            Op::AcqReentrant => {
                let w2 = w.clone();
                REENTER.with(|r| {
                    *r.borrow_mut() = Some(Box::new(move || {
                        let inner = tracked_acquire(&w2, t);
                        STASH.with(|s| s.borrow_mut().push(Box::new(inner)));
                    }))
                });
                let outer = tracked_acquire(w, t);
                let stashed: Vec<Box<dyn Any>> = STASH.with(|s| s.borrow_mut().drain(..).collect());
                for b in stashed {
                    stack.push(*b.downcast::<(W::R, usize)>().expect("stashed reference type"));
                }
                stack.push(outer);
            }
            Op::Clone => {
                vsched::point("h.clone");
                let (r, id) = stack.last().expect("well-formed program");
                let c = r.clone();
                let cid = world().on_clone(t, *id, c.serial());
                stack.push((c, cid));
            }
            Op::Drop => {
                let (r, id) = stack.pop().expect("well-formed program");
                tracked_drop(t, r, id);
            }
            Op::DropUnwinding => {
                let (r, id) = stack.pop().expect("well-formed program");
                world().begin_drop(id);
                DROP_BRANCH.with(|b| b.set(0));
                struct HarnessUnwind;
                let res = std::panic::catch_unwind(std::panic::AssertUnwindSafe(move || {
                    let _held = r; // dropped while this closure unwinds
                    std::panic::resume_unwind(Box::new(HarnessUnwind));
                }));
                assert!(res.is_err(), "the harness unwind was caught");
                let branch = DROP_BRANCH.with(Cell::get);
                world().end_drop(t, id, branch);
            }
            Op::Send(j) => {
                let (r, id) = stack.pop().expect("well-formed program");
                world().events.push(format!("T{t}:send(X{})->T{j}", r.serial()));
                W::send(r, id, *j);
            }
            Op::Recv => {
                let mut got = None;
                vsched::block_until("h.recv", &mut || {
                    got = W::try_recv(t);
                    got.is_some()
                });
                let (r, id) = got.unwrap();
                // "used only through references aligned to that thread": the reference still
                // points to the instance of the thread it was acquired on.
                let inst = r.serial();
                {
                    let mut w = world();
                    if w.refs[id].inst != inst {
                        let expect = w.refs[id].inst;
                        w.violate("moved-reference-changed-instance", format!("a reference to X{expect} moved to T{t} now points to X{inst}"));
                    }
                    w.events.push(format!("T{t}:recv(X{inst})"));
                }
                stack.push((r, id));
            }
        }
    }
    while let Some((r, id)) = stack.pop() {
        tracked_drop(t, r, id);
    }
}

fn wrapper_body<W: Wrapper + Send>(make: fn(Obj) -> W, threads: &[Vec<Op>], kind: &'static str) -> String {
    world::ME.with(|m| m.set(0));
    let w = make(Obj::new());
    world().wrapper_kind = kind;
    let family = world().families - 1;
    // The root thread is thread 0 of the program (it spawns the others first, joins them last).
    let mut joins = Vec::new();
    for (i, ops) in threads.iter().enumerate().skip(1) {
        let (w2, ops2) = (w.clone(), ops.clone());
        joins.push(vsched::spawn(&format!("t{i}"), move || interpret(&w2, i, &ops2)));
    }
    interpret(&w, 0, &threads[0]);
    for (i, j) in joins.into_iter().enumerate() {
        if let Err(m) = j.join() {
            world().violate(&format!("thread-panicked:{kind}"), format!("thread T{} panicked: {m}", i + 1));
        }
    }
    // ---- quiescence: every reference has been dropped ----
    let keys = w.keys().len();
    let last = std::panic::catch_unwind(std::panic::AssertUnwindSafe(move || drop(w)));
    let mut wd = world();
    let leaked: Vec<String> = wd.insts.iter().enumerate().filter(|(_, i)| i.exposed && i.dropped_on.is_none()).map(|(s, i)| format!("X{s}@T{}", i.created_on)).collect();
    if (!leaked.is_empty() || keys != 0) && wd.violations.is_empty() {
        let asserted = last.as_ref().err().map(|p| vcommon::panic_message(&**p));
        wd.violate(
            &format!("leak-at-quiescence:{kind}"),
            format!("all references dropped, but instances {leaked:?} were never dropped and the state map still has {keys} entries (wrapper drop: {asserted:?})"),
        );
    } else if let (Err(p), true) = (&last, wd.violations.is_empty()) {
        wd.violate(&format!("wrapper-drop-panicked:{kind}"), vcommon::panic_message(&**p));
    }
    if let Err(p) = &last {
        // the crate's own sanity assertion, as supporting evidence in the event log
        let m = vcommon::panic_message(&**p);
        wd.events.push(format!("T0:wrapper-drop-panicked({m})"));
    }
    let mut extra: Vec<(&str, String)> = Vec::new();
    for (s, i) in wd.insts.iter().enumerate() {
        if i.family != family {
            extra.push(("instance-of-another-family", format!("X{s} belongs to family F{}, the wrapper's family is F{family}", i.family)));
            break;
        }
        if i.exposed && i.dropped_on.is_some() && i.dropped_on != Some(i.created_on) && kind == "InstancePerThread" {
            // Ref is !Send: the instance of a thread can only be dropped on that thread.
            extra.push(("local-instance-dropped-on-another-thread", format!("X{s} created on T{} dropped on T{}", i.created_on, i.dropped_on.unwrap())));
            break;
        }
    }
    for (k, m) in extra {
        wd.violate(k, m);
    }
    wd.report();
    // observation: per instance "created-on>dropped-on", in creation order
    let obs: Vec<String> = wd.insts.iter().filter(|i| i.exposed).map(|i| format!("{}>{}", i.created_on, i.dropped_on.unwrap())).collect();
    format!("instances[{}]", obs.join(","))
}

fn race_body(kind: u8, threads: usize, gets: usize) -> String {
    world::ME.with(|m| m.set(0));
    ADJ[0].store(0, SeqCst);
    KIND[0].store(kind, SeqCst);
    let kname = KIND_NAMES[kind as usize];
    let racer = move |t: usize| {
        world::ME.with(|m| m.set(t));
        let mut seen = Vec::new();
        let mut handles = Vec::new();
        for _ in 0..gets {
            let h = access(0);
            h.obj().fam.touches.fetch_add(1, SeqCst);
            seen.push((h.obj().fam_serial(), h.obj().serial()));
            handles.push(h);
        }
        if let (Some(false), true) = (handles[0].same_allocation(&handles[handles.len() - 1]), handles.len() > 1) {
            world().violate(&format!("second-instance-on-thread:{kname}"), format!("two accesses on T{t} returned different instances"));
        }
        seen
    };
    // The root thread is racer 0 (it spawns the others first, joins them last).
    let mut joins = Vec::new();
    for t in 1..threads {
        joins.push(vsched::spawn(&format!("t{t}"), move || racer(t)));
    }
    let mut all: Vec<(usize, usize, usize)> = racer(0).into_iter().map(|(f, x)| (0, f, x)).collect();
    for (i, j) in joins.into_iter().enumerate() {
        match j.join() {
            Ok(seen) => all.extend(seen.into_iter().map(|(f, x)| (i + 1, f, x))),
            Err(m) => world().violate(&format!("thread-panicked:{kname}"), format!("T{} panicked: {m}", i + 1)),
        }
    }
    let root = access(0);
    let fam = root.obj().fam_serial();
    let touches = root.obj().fam.touches.load(SeqCst);
    let mut wd = world();
    for (t, f, x) in &all {
        if *f != fam {
            wd.violate(
                &format!("two-initialiser-results-exposed:{kname}"),
                format!("T{t} obtained instance X{x} of family F{f}, the root later obtained family F{fam}: two first instances were exposed"),
            );
        }
        let (c, d) = (wd.insts[*x].created_on, wd.insts[*x].dropped_on);
        if c != *t {
            wd.violate(&format!("instance-created-on-another-thread:{kname}"), format!("T{t} obtained X{x} created on T{c}"));
        }
        match d {
            // (the root's own thread-local instance lives until the process ends)
            None if *t == 0 && kind != 0 => {}
            None => wd.violate(&format!("leak-at-quiescence:{kname}"), format!("X{x} obtained by T{t} is still alive after T{t} exited")),
            Some(d) if d != *t => wd.violate(&format!("instance-dropped-on-another-thread:{kname}"), format!("X{x} of T{t} was dropped on T{d}")),
            _ => {}
        }
    }
    if touches != threads * gets && wd.violations.is_empty() {
        wd.violate(&format!("family-state-not-shared:{kname}"), format!("{} increments through the threads' instances, the root's instance sees {touches}", threads * gets));
    }
    wd.report();
    // which thread's constructor run made the (single) exposed family
    let maker = wd.insts.iter().find(|i| i.family == fam).map(|i| i.created_on).unwrap_or(99);
    format!("family-made-on=T{maker} constructor-runs={}", wd.families)
}

pub fn body(prog: &ProgB) -> String {
    match prog {
        ProgB::Race { kind, threads, gets } => race_body(*kind, *threads, *gets),
        ProgB::Wrapper { sync: true, threads } => wrapper_body::<InstancePerThreadSync<Obj>>(InstancePerThreadSync::new, threads, "InstancePerThreadSync"),
        ProgB::Wrapper { sync: false, threads } => wrapper_body::<InstancePerThread<Obj>>(InstancePerThread::new, threads, "InstancePerThread"),
    }
}

pub fn _unused() -> usize {
    me()
}

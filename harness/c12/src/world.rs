//! The linked object type under test and the harness-side bookkeeping ("world") the oracle reads.
//! Everything here is process-global and is fresh in every forked execution.

use std::cell::{Cell, RefCell};
use std::rc::Rc;
use std::sync::atomic::{AtomicU8, AtomicUsize, Ordering::SeqCst};
use std::sync::{Arc, Mutex, MutexGuard};

thread_local! {
    /// Harness index of the current thread (root = 0). Plain `Cell`: no destructor, so it stays
    /// usable while the thread's other thread-locals are being destroyed.
    pub static ME: Cell<usize> = const { Cell::new(0) };
    /// A re-entrant action the NEXT instance creation on this thread performs (one shot).
    pub static REENTER: RefCell<Option<Box<dyn FnOnce()>>> = const { RefCell::new(None) };
}

pub fn me() -> usize {
    ME.with(Cell::get)
}

pub struct Inst {
    pub family: usize,
    pub created_on: usize,
    pub dropped_on: Option<usize>,
    /// references (harness-tracked) that have not begun to be dropped
    pub live_refs: usize,
    /// reference drops in progress
    pub inflight: usize,
    /// was this instance ever handed out through a per-thread wrapper reference?
    pub exposed: bool,
}

pub struct RefRec {
    pub inst: usize,
    pub live: bool,
}

pub const MAX_THREADS: usize = 8;
pub const MAX_STATICS: usize = 4;

pub struct World {
    /// constructor (= initialiser) runs so far; each run makes one family state
    pub families: usize,
    pub insts: Vec<Inst>,
    pub refs: Vec<RefRec>,
    pub events: Vec<String>,
    /// oracle failures of this execution, one per distinct key, in order: (key, message)
    pub violations: Vec<(String, String)>,
    /// thread t performed a "last reference" clean-up for an instance of ANOTHER thread (so its
    /// own map entry was the one that got cleared)
    pub wrong_clear: [bool; MAX_THREADS],
    /// which per-thread wrapper this execution exercises (for violation keys)
    pub wrapper_kind: &'static str,
    // ---- part A ----
    pub init_stack: Vec<usize>,
    pub access_stack: Vec<usize>,
    pub init_runs: [usize; MAX_STATICS],
    /// (initialiser of i, successor j, family serial the initialiser saw for j)
    pub nested_seen: Vec<(usize, usize, usize)>,
    pub accesses: u64,
}

impl World {
    const fn new() -> Self {
        Self {
            families: 0,
            insts: Vec::new(),
            refs: Vec::new(),
            events: Vec::new(),
            violations: Vec::new(),
            wrong_clear: [false; MAX_THREADS],
            wrapper_kind: "",
            init_stack: Vec::new(),
            access_stack: Vec::new(),
            init_runs: [0; MAX_STATICS],
            nested_seen: Vec::new(),
            accesses: 0,
        }
    }

    pub fn violate(&mut self, key: &str, msg: String) {
        if !self.violations.iter().any(|(k, _)| k == key) {
            self.violations.push((key.to_string(), msg));
        }
    }

    // ---- reference bookkeeping for the per-thread wrappers ----

    /// A reference to instance `inst` was just returned by `acquire()` on thread `t`.
    pub fn on_acquire(&mut self, t: usize, inst: usize) -> usize {
        let created_on = self.insts[inst].created_on;
        if created_on != t {
            self.violate(
                "acquire-returned-foreign-instance",
                format!("acquire() on T{t} returned instance X{inst} created on T{created_on}"),
            );
        }
        if let Some(d) = self.insts[inst].dropped_on {
            self.violate("acquire-returned-dropped-instance", format!("acquire() on T{t} returned X{inst} which was already dropped on T{d}"));
        }
        // One live instance per thread: every live reference aligned to this thread must point to
        // the instance acquire() just returned.
        let other = self.refs.iter().find(|r| r.live && r.inst != inst && self.insts[r.inst].created_on == t).map(|r| r.inst);
        if let Some(y) = other {
            let key = if self.wrong_clear[t] {
                "refsync-dropped-off-thread:dropping-threads-entry-cleared-second-live-instance-on-thread".to_string()
            } else {
                format!("second-live-instance-on-thread:{}", self.wrapper_kind)
            };
            self.violate(
                &key,
                format!("acquire() on T{t} returned a NEW instance X{inst} while X{y} (also created on T{t} by the same wrapper) is still referenced by a live reference: two live instances on one thread"),
            );
        }
        self.insts[inst].exposed = true;
        self.insts[inst].live_refs += 1;
        self.refs.push(RefRec { inst, live: true });
        self.events.push(format!("T{t}:acq=X{inst}"));
        self.refs.len() - 1
    }

    pub fn on_clone(&mut self, t: usize, src: usize, inst: usize) -> usize {
        let expect = self.refs[src].inst;
        if expect != inst {
            self.violate("clone-changed-instance", format!("clone of a reference to X{expect} on T{t} points to X{inst}"));
        }
        self.insts[inst].live_refs += 1;
        self.refs.push(RefRec { inst, live: true });
        self.events.push(format!("T{t}:clone=X{inst}"));
        self.refs.len() - 1
    }

    pub fn begin_drop(&mut self, id: usize) {
        let inst = self.refs[id].inst;
        self.refs[id].live = false;
        self.insts[inst].live_refs -= 1;
        self.insts[inst].inflight += 1;
    }

    /// `branch`: 0 = unknown, 1 = the drop saw "not the last reference", 2 = it ran the clean-up.
    pub fn end_drop(&mut self, t: usize, id: usize, branch: u8) {
        let inst = self.refs[id].inst;
        self.insts[inst].inflight -= 1;
        let origin = self.insts[inst].created_on;
        self.events.push(format!("T{t}:drop(X{inst}){}", ["", ":notlast", ":cleanup"][branch as usize]));
        if branch == 2 && origin != t {
            self.wrong_clear[t] = true;
        }
        let i = &self.insts[inst];
        if i.live_refs == 0 && i.inflight == 0 && i.dropped_on.is_none() {
            let (key, why) = if branch == 2 && origin != t {
                (
                    "refsync-dropped-off-thread:origin-entry-not-cleared-instance-leaked",
                    format!("the clean-up ran on T{t} and cleared T{t}'s map entry instead of the entry of the origin thread T{origin}"),
                )
            } else if branch == 1 {
                (
                    "refsync-concurrent-last-drop:all-droppers-saw-a-sibling-nobody-cleared-instance-leaked",
                    "this drop's strong-count test still saw a sibling reference whose drop was in progress (count test and decrement are not atomic), so no drop ran the clean-up".to_string(),
                )
            } else {
                ("last-drop-did-not-drop-instance", format!("clean-up branch {branch} on T{t}, origin T{origin}"))
            };
            self.violate(key, format!("the last reference aligned to X{inst} (created on T{origin}) was dropped on T{t} but the instance was not dropped: {why}"));
        }
    }
}

static WORLD: Mutex<World> = Mutex::new(World::new());

impl World {
    /// Panics with every recorded oracle failure (the runner splits the message at " ## ").
    pub fn report(&self) {
        if !self.violations.is_empty() {
            let all: Vec<String> = self.violations.iter().map(|(k, m)| format!("ORACLE[{k}] {m}")).collect();
            panic!("{} || events: {}", all.join(" ## "), self.events.join(" "));
        }
    }
}

pub fn world() -> MutexGuard<'static, World> {
    WORLD.lock().unwrap_or_else(std::sync::PoisonError::into_inner)
}

// ------------------------------------------------------------------------------------------
// The linked object
// ------------------------------------------------------------------------------------------

pub struct FamState {
    pub serial: usize,
    pub tag: AtomicUsize,
    pub touches: AtomicUsize,
}

pub struct InstGuard {
    pub serial: usize,
}

impl InstGuard {
    fn create(fam: &Arc<FamState>) -> Self {
        let t = me();
        let serial = {
            let mut w = world();
            w.insts.push(Inst { family: fam.serial, created_on: t, dropped_on: None, live_refs: 0, inflight: 0, exposed: false });
            let serial = w.insts.len() - 1;
            w.events.push(format!("T{t}:new(X{serial}/F{})", fam.serial));
            serial
        };
        // Re-entrant user code in the instance factory (runs outside the harness lock).
        if let Ok(Some(f)) = REENTER.try_with(|r| r.borrow_mut().take()) {
            f();
        }
        Self { serial }
    }
}

impl Drop for InstGuard {
    fn drop(&mut self) {
        let t = me();
        let mut w = world();
        let serial = self.serial;
        if w.insts[serial].live_refs > 0 {
            let n = w.insts[serial].live_refs;
            w.violate("instance-dropped-while-referenced", format!("X{serial} dropped on T{t} while {n} references to it are live"));
        }
        if w.insts[serial].dropped_on.is_some() {
            w.violate("instance-dropped-twice", format!("X{serial} dropped a second time on T{t}"));
        }
        w.insts[serial].dropped_on = Some(t);
        w.events.push(format!("T{t}:del(X{serial})"));
    }
}

#[linked::object]
pub struct Obj {
    pub fam: Arc<FamState>,
    pub guard: InstGuard,
}

impl Obj {
    /// One constructor run = one initialiser result = one family state.
    pub fn new() -> Self {
        let serial = {
            let mut w = world();
            w.families += 1;
            w.families - 1
        };
        let fam = Arc::new(FamState { serial, tag: AtomicUsize::new(0), touches: AtomicUsize::new(0) });
        linked::new!(Self { fam: Arc::clone(&fam), guard: InstGuard::create(&fam) })
    }

    pub fn fam_serial(&self) -> usize {
        self.fam.serial
    }
    pub fn serial(&self) -> usize {
        self.guard.serial
    }
}

// ------------------------------------------------------------------------------------------
// The statics: 4 per macro kind; the initialiser of node i consults the run-time adjacency
// matrix and reads its successors through their statics.
// ------------------------------------------------------------------------------------------

/// successors of node i (bit j set = the initialiser of i accesses node j)
pub static ADJ: [AtomicU8; MAX_STATICS] = [const { AtomicU8::new(0) }; MAX_STATICS];
/// macro kind of node i: 0 = instances!, 1 = thread_local_rc!, 2 = thread_local_arc!
pub static KIND: [AtomicU8; MAX_STATICS] = [const { AtomicU8::new(0) }; MAX_STATICS];

pub const KIND_NAMES: [&str; 3] = ["instances", "thread_local_rc", "thread_local_arc"];
pub const KIND_CHARS: [char; 3] = ['i', 'r', 'a'];

pub enum Handle {
    Inst(Obj),
    Rc(Rc<Obj>),
    Arc(Arc<Obj>),
}

impl Handle {
    pub fn obj(&self) -> &Obj {
        match self {
            Handle::Inst(o) => o,
            Handle::Rc(o) => o,
            Handle::Arc(o) => o,
        }
    }
    pub fn same_allocation(&self, other: &Handle) -> Option<bool> {
        match (self, other) {
            (Handle::Rc(a), Handle::Rc(b)) => Some(Rc::ptr_eq(a, b)),
            (Handle::Arc(a), Handle::Arc(b)) => Some(Arc::ptr_eq(a, b)),
            _ => None,
        }
    }
}

fn init_static(i: usize) -> Obj {
    {
        let mut w = world();
        w.init_runs[i] += 1;
        w.init_stack.push(i);
    }
    let succ = ADJ[i].load(SeqCst);
    for j in 0..MAX_STATICS {
        if succ & (1 << j) != 0 {
            let h = access(j);
            let fam = h.obj().fam_serial();
            world().nested_seen.push((i, j, fam));
        }
    }
    world().init_stack.pop();
    Obj::new()
}

macro_rules! statics {
    ($( $i:literal : $I:ident $R:ident $A:ident ),*) => {
        linked::instances! { $( static $I: Obj = init_static($i); )* }
        linked::thread_local_rc! { $( static $R: Obj = init_static($i); )* }
        linked::thread_local_arc! { $( static $A: Obj = init_static($i); )* }

        /// Access node `i` through the static of its configured macro kind.
        pub fn access(i: usize) -> Handle {
            let kind = KIND[i].load(SeqCst);
            {
                let mut w = world();
                w.accesses += 1;
                w.access_stack.push(i);
            }
            let h = match (kind, i) {
                $(
                    (0, $i) => Handle::Inst($I.get()),
                    (1, $i) => Handle::Rc($R.to_rc()),
                    (2, $i) => Handle::Arc($A.to_arc()),
                )*
                _ => unreachable!("no static for kind {kind} node {i}"),
            };
            world().access_stack.pop();
            h
        }
    };
}

statics!(0: I0 R0 A0, 1: I1 R1 A1, 2: I2 R2 A2, 3: I3 R3 A3);

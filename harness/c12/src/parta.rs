//! PART A — programs (sequential): every acyclic dependency graph on n statics whose initialisers
//! access their successors through the successors' statics, times every first-access order.
//! Single-threaded and deterministic; every program runs in its own forked process.

use std::io::{Read, Write};
use std::os::fd::FromRawFd;
use std::sync::atomic::{AtomicI32, Ordering::SeqCst};
use std::time::{Duration, Instant};

use vcommon::serde_json::{Value, json};

use crate::world::{self, ADJ, KIND, KIND_CHARS, KIND_NAMES, access, world};

#[derive(Clone, Debug)]
pub struct ProgA {
    pub kinds: Vec<u8>,
    /// adj[i] = bitmask of the successors of node i
    pub adj: Vec<u8>,
    pub order: Vec<usize>,
}

impl ProgA {
    pub fn n(&self) -> usize {
        self.kinds.len()
    }
    pub fn edges(&self) -> Vec<(usize, usize)> {
        let mut v = Vec::new();
        for (i, m) in self.adj.iter().enumerate() {
            for j in 0..self.n() {
                if m & (1 << j) != 0 {
                    v.push((i, j));
                }
            }
        }
        v
    }
    pub fn name(&self) -> String {
        format!(
            "{}:{}:{}",
            self.kinds.iter().map(|k| KIND_CHARS[*k as usize]).collect::<String>(),
            self.edges().iter().map(|(i, j)| format!("{i}>{j}")).collect::<Vec<_>>().join(","),
            self.order.iter().map(|i| i.to_string()).collect::<String>()
        )
    }
    pub fn parse(s: &str) -> ProgA {
        let parts: Vec<&str> = s.split(':').collect();
        let kinds: Vec<u8> = parts[0].chars().map(|c| KIND_CHARS.iter().position(|k| *k == c).unwrap() as u8).collect();
        let mut adj = vec![0_u8; kinds.len()];
        for e in parts[1].split(',').filter(|e| !e.is_empty()) {
            let (i, j) = e.split_once('>').unwrap();
            adj[i.parse::<usize>().unwrap()] |= 1 << j.parse::<usize>().unwrap();
        }
        let order = parts[2].chars().map(|c| c.to_digit(10).unwrap() as usize).collect();
        ProgA { kinds, adj, order }
    }
}

/// All acyclic directed graphs on n labelled nodes (adjacency bitmasks).
pub fn dags(n: usize) -> Vec<Vec<u8>> {
    let pairs: Vec<(usize, usize)> = (0..n).flat_map(|i| (0..n).filter(move |j| *j != i).map(move |j| (i, j))).collect();
    let mut out = Vec::new();
    for bits in 0_u32..(1 << pairs.len()) {
        let mut adj = vec![0_u8; n];
        for (b, (i, j)) in pairs.iter().enumerate() {
            if bits & (1 << b) != 0 {
                adj[*i] |= 1 << j;
            }
        }
        if acyclic(&adj) {
            out.push(adj);
        }
    }
    // simplest first: by number of edges
    out.sort_by_key(|a| a.iter().map(|m| m.count_ones()).sum::<u32>());
    out
}

fn acyclic(adj: &[u8]) -> bool {
    // repeatedly remove nodes without successors among the remaining ones
    let n = adj.len();
    let mut alive: u8 = ((1_u16 << n) - 1) as u8;
    loop {
        let mut removed = false;
        for i in 0..n {
            if alive & (1 << i) != 0 && adj[i] & alive == 0 {
                alive &= !(1 << i);
                removed = true;
            }
        }
        if alive == 0 {
            return true;
        }
        if !removed {
            return false;
        }
    }
}

pub fn permutations(n: usize) -> Vec<Vec<usize>> {
    fn rec(cur: &mut Vec<usize>, n: usize, out: &mut Vec<Vec<usize>>) {
        if cur.len() == n {
            out.push(cur.clone());
            return;
        }
        for i in 0..n {
            if !cur.contains(&i) {
                cur.push(i);
                rec(cur, n, out);
                cur.pop();
            }
        }
    }
    let mut out = Vec::new();
    rec(&mut Vec::new(), n, &mut out);
    out
}

/// `sel`: "u0" | "u1" | "u2" = all nodes of that macro kind; "mixed" = every non-uniform kind vector.
pub fn programs(sel: &str, n: usize) -> Vec<ProgA> {
    let kind_vectors: Vec<Vec<u8>> = match sel {
        "u0" | "u1" | "u2" => vec![vec![sel[1..].parse().unwrap(); n]],
        _ => {
            let mut v = Vec::new();
            for code in 0..3_usize.pow(n as u32) {
                let kinds: Vec<u8> = (0..n).map(|i| ((code / 3_usize.pow(i as u32)) % 3) as u8).collect();
                if kinds.iter().any(|k| *k != kinds[0]) {
                    v.push(kinds);
                }
            }
            v
        }
    };
    let mut out = Vec::new();
    for kinds in &kind_vectors {
        for adj in dags(n) {
            for order in permutations(n) {
                out.push(ProgA { kinds: kinds.clone(), adj: adj.clone(), order });
            }
        }
    }
    out
}

// ------------------------------------------------------------------------------------------
// One program (runs in a forked child)
// ------------------------------------------------------------------------------------------

static RESULT_FD: AtomicI32 = AtomicI32::new(-1);

fn write_result_and_exit(text: &str) -> ! {
    let fd = RESULT_FD.load(SeqCst);
    // SAFETY: the write end of the pipe created for this child by `fork_run`.
    let mut f = unsafe { std::fs::File::from_raw_fd(fd) };
    let _ = f.write_all(text.as_bytes());
    let _ = f.flush();
    drop(f);
    // SAFETY: terminate the forked child immediately.
    unsafe { libc::_exit(0) }
}

/// Deterministic self-deadlock detector for the single-threaded programs: the only thread of the
/// process is about to acquire the (non re-entrant) global registry lock while that lock is held —
/// necessarily by itself. The acquisition can never succeed: non-termination, decided without
/// waiting for a watchdog.
fn detector_point(label: &'static str) {
    let st = linked::__verif_global_registry_lock_state();
    let stuck = match label {
        "si.global.write" => st != 0,
        "si.global.read" => st == 2,
        _ => false,
    };
    if stuck {
        let (outer, inner) = {
            let w = world();
            (w.init_stack.last().copied(), w.access_stack.last().copied())
        };
        let v = json!({"class": "selfdeadlock", "label": label, "lock_state": st, "outer": outer, "inner": inner});
        write_result_and_exit(&v.to_string());
    }
}

pub fn run(prog: &ProgA, detect: bool) -> String {
    if detect {
        linked::verif_hook::install(linked::verif_hook::Hooks { point: detector_point });
    }
    let n = prog.n();
    for i in 0..n {
        ADJ[i].store(prog.adj[i], SeqCst);
        KIND[i].store(prog.kinds[i], SeqCst);
    }
    world::ME.with(|m| m.set(0));
    let fail = |key: String, msg: String| json!({"class": "violation", "key": key, "msg": msg}).to_string();

    // first accesses, in the program's order
    let mut first: Vec<Option<world::Handle>> = (0..n).map(|_| None).collect();
    for &i in &prog.order {
        first[i] = Some(access(i));
    }
    // second round: same family, shared state, one instance per thread for the thread-local kinds
    let mut fams = Vec::new();
    for i in 0..n {
        let a = first[i].as_ref().unwrap();
        let b = access(i);
        let kind = KIND_NAMES[prog.kinds[i] as usize];
        if a.obj().fam_serial() != b.obj().fam_serial() {
            return fail(
                format!("two-initialiser-results-exposed:{kind}"),
                format!("two accesses of static {i} returned instances of different families F{} and F{}", a.obj().fam_serial(), b.obj().fam_serial()),
            );
        }
        b.obj().fam.tag.store(100 + i, SeqCst);
        if a.obj().fam.tag.load(SeqCst) != 100 + i {
            return fail(format!("family-state-not-shared:{kind}"), format!("tag written through one instance of static {i} is not visible through another"));
        }
        if a.same_allocation(&b) == Some(false) {
            return fail(format!("second-instance-on-thread:{kind}"), format!("two accesses of thread-local static {i} on one thread returned different instances"));
        }
        fams.push(a.obj().fam_serial());
    }
    for i in 0..n {
        for j in 0..i {
            if fams[i] == fams[j] {
                return fail("statics-share-a-family".into(), format!("statics {j} and {i} expose the same family F{}", fams[i]));
            }
        }
    }
    let w = world();
    for (i, j, fam) in &w.nested_seen {
        if *fam != fams[*j] {
            return fail(
                format!("two-initialiser-results-exposed:{}", KIND_NAMES[prog.kinds[*j] as usize]),
                format!("the initialiser of static {i} saw family F{fam} of static {j}, later accesses see F{}", fams[*j]),
            );
        }
    }
    for (i, j) in prog.edges() {
        if !w.nested_seen.iter().any(|(a, b, _)| *a == i && *b == j) {
            return fail("harness-edge-not-exercised".into(), format!("edge {i}>{j} was never exercised"));
        }
    }
    let nested = w.nested_seen.len();
    json!({
        "class": "ok",
        "accesses": w.accesses,
        "obs": format!("init_runs={:?} nested_reads={} families_made={}", &w.init_runs[..n], nested, w.families),
    })
    .to_string()
}

// ------------------------------------------------------------------------------------------
// fork + deadline
// ------------------------------------------------------------------------------------------

pub enum Forked {
    Done(String),
    /// blocked (sleeping, no processor time consumed) for the whole limit
    TimedOut,
    /// still running (or starved of processor time) at the hard cap: not a verdict
    Cap,
    Crashed(i32),
}

/// (scheduler state, user+system ticks) of a process, from /proc/<pid>/stat.
fn proc_state(pid: i32) -> Option<(char, u64)> {
    let text = std::fs::read_to_string(format!("/proc/{pid}/stat")).ok()?;
    let rest = &text[text.rfind(')')? + 2..];
    let f: Vec<&str> = rest.split(' ').collect();
    // rest starts at field 3 (state); utime = field 14, stime = field 15
    Some((f.first()?.chars().next()?, f.get(11)?.parse::<u64>().ok()? + f.get(12)?.parse::<u64>().ok()?))
}

const HARD_CAP: Duration = Duration::from_secs(120);

/// Run `f` in a forked child of this (single-threaded) process; its string comes back through a pipe.
/// `TimedOut` means: the child did not finish AND was blocked (sleeping, not runnable, zero
/// processor time consumed) for `timeout` without interruption - so a child that is merely starved
/// on a loaded machine is never mistaken for one that hangs.
pub fn fork_run(timeout: Duration, f: &dyn Fn() -> String) -> Forked {
    let mut fds = [0_i32; 2];
    // SAFETY: plain pipe creation.
    assert_eq!(unsafe { libc::pipe(fds.as_mut_ptr()) }, 0, "pipe");
    // SAFETY: the calling process is single-threaded (documented requirement).
    let pid = unsafe { libc::fork() };
    assert!(pid >= 0, "fork failed");
    if pid == 0 {
        // SAFETY: closing the read end we do not use.
        unsafe { libc::close(fds[0]) };
        RESULT_FD.store(fds[1], SeqCst);
        let text = match std::panic::catch_unwind(std::panic::AssertUnwindSafe(f)) {
            Ok(s) => s,
            Err(p) => json!({"class": "panic", "msg": vcommon::panic_message(&*p)}).to_string(),
        };
        write_result_and_exit(&text);
    }
    // SAFETY: closing the write end we do not use; taking ownership of the read end.
    unsafe { libc::close(fds[1]) };
    let mut rd = unsafe { std::fs::File::from_raw_fd(fds[0]) };
    let start = Instant::now();
    let mut buf = Vec::new();
    let mut timed_out = false;
    let mut capped = false;
    let mut blocked_since = Instant::now();
    let mut last_ticks = u64::MAX;
    loop {
        match proc_state(pid) {
            Some(('S', ticks)) if ticks == last_ticks => {}
            Some((_, ticks)) => {
                last_ticks = ticks;
                blocked_since = Instant::now();
            }
            None => blocked_since = Instant::now(),
        }
        if blocked_since.elapsed() >= timeout {
            timed_out = true;
            break;
        }
        if start.elapsed() >= HARD_CAP {
            capped = true;
            break;
        }
        let mut pfd = libc::pollfd { fd: fds[0], events: libc::POLLIN, revents: 0 };
        // SAFETY: valid pollfd.
        let k = unsafe { libc::poll(&mut pfd, 1, 200) };
        if k > 0 {
            let mut chunk = [0_u8; 16384];
            match rd.read(&mut chunk) {
                Ok(0) | Err(_) => break,
                Ok(m) => buf.extend_from_slice(&chunk[..m]),
            }
        }
    }
    if timed_out || capped {
        // SAFETY: kill our own child.
        unsafe { libc::kill(pid, libc::SIGKILL) };
    }
    let mut status = 0;
    // SAFETY: reap our own child.
    unsafe { libc::waitpid(pid, &mut status, 0) };
    if timed_out {
        return Forked::TimedOut;
    }
    if capped {
        return Forked::Cap;
    }
    if buf.is_empty() {
        return Forked::Crashed(status);
    }
    Forked::Done(String::from_utf8_lossy(&buf).into_owned())
}

pub const LIMIT: Duration = Duration::from_secs(5);

/// The non-termination rule of the design: a single-threaded deterministic program that normally
/// takes microseconds and does not finish within 5 s (all of them spent blocked), twice, does not
/// terminate.
pub fn run_with_rule(prog: &ProgA, detect: bool) -> Value {
    let mut slow_once = false;
    for attempt in 0..2 {
        match fork_run(LIMIT, &|| run(prog, detect)) {
            Forked::Done(s) => {
                let mut v: Value = vcommon::serde_json::from_str(&s).unwrap_or_else(|_| json!({"class": "garbled", "raw": s}));
                if slow_once {
                    v["slow_once"] = json!(true);
                }
                return v;
            }
            Forked::Crashed(st) => return json!({"class": "crashed", "status": st}),
            Forked::Cap => return json!({"class": "still-running-at-hard-cap"}),
            Forked::TimedOut => {
                slow_once = true;
                let _ = attempt;
            }
        }
    }
    json!({"class": "did-not-finish"})
}

//! C04 — pools stay usable and consistent when user code they run panics or re-enters.
//!
//! Deviation-bounded exhaustive enumeration of single-threaded programs (model.rs) executed on the
//! real pools (real.rs). Process structure:
//!
//! * parent: enumerates the programs (counts, hashes, samples), fans out shards with
//!   `vcommon::run_jobs`, merges, confirms every hang class by re-running one witness alone twice
//!   with a 5 s limit, applies anti-vacuity checks, writes evidence;
//! * worker (`VERIF_JOB=shard:i:n`, worker.rs): re-enumerates, takes every n-th program and runs
//!   each on a fresh thread of a forked batch process; self-deadlocks are decided from /proc,
//!   aborts kill (and restart) the batch process.

mod model;
mod real;
mod worker;

use std::collections::BTreeMap;
use std::time::{Duration, Instant};

use model::{Bounds, Family, Model, POOLS, Program};
use real::REC_SIZE;
use vcommon::serde_json::{Value, json};

fn bounds(thorough: bool) -> Bounds {
    let env_dev = std::env::var("C04_MAX_DEV").ok().and_then(|s| s.parse().ok());
    if thorough {
        Bounds { pools: (0..9).collect(), max_objects: 3, uniform3: false, max_deviations: env_dev.unwrap_or(3) }
    } else {
        Bounds { pools: (0..9).collect(), max_objects: 3, uniform3: true, max_deviations: env_dev.unwrap_or(1) }
    }
}

fn main() {
    vcommon::quiet_panics();
    if std::env::var("C04_REPLAY").is_ok() || vcommon::child_job().is_some_and(|j| j.starts_with("confirm:")) {
        // No worker, no shared page: progress markers go to a private buffer.
        real::set_record(Box::leak(Box::new([0_u8; REC_SIZE])).as_mut_ptr());
    }
    if let Ok(text) = std::env::var("C04_REPLAY") {
        replay(&text);
        return;
    }
    if std::env::var("C04_COUNT").is_ok() {
        let b = bounds(vcommon::is_thorough());
        let mut per: BTreeMap<(String, usize), u64> = BTreeMap::new();
        let t = Instant::now();
        model::enumerate(&b, &mut |p: &Program| *per.entry((p.desc().name.to_string(), p.deviations())).or_insert(0) += 1);
        let total: u64 = per.values().sum();
        for ((pool, dev), n) in &per {
            println!("{pool:16} dev={dev} {n}");
        }
        println!("total {total} enumerated in {:?}", t.elapsed());
        return;
    }
    if let Some(job) = vcommon::child_job() {
        if let Some(rest) = job.strip_prefix("shard:") {
            let (i, n) = rest.split_once(':').expect("shard:i:n");
            worker::worker(i.parse().unwrap(), n.parse().unwrap(), &bounds(vcommon::is_thorough()));
        } else if let Some(text) = job.strip_prefix("confirm:") {
            // Runs the program in this very process; a self-deadlock makes run_jobs time out.
            let p = Program::parse(text).expect("program text");
            let r = real::run_program(&p, false);
            vcommon::child_result(&json!({"class": r.class}));
        }
        return;
    }
    parent();
}

fn replay(text: &str) {
    let p = Program::parse(text).unwrap_or_else(|| {
        eprintln!("cannot parse program {text:?}");
        std::process::exit(2);
    });
    let mut m = Model::new(&p);
    let e = m.run_trigger(p.trigger);
    eprintln!("program: {}", p.text());
    eprintln!("model: trigger should {:?}; callbacks {:?}; live afterwards {:?}", e, m.trace.iter().map(|t| t.occ.text()).collect::<Vec<_>>(), m.live_objects());
    std::panic::set_hook(Box::new(|info| {
        eprintln!("  [panic] {info}");
    }));
    if let Some(n) = std::env::var("C04_REPLAY_N").ok().and_then(|s| s.parse::<u32>().ok()) {
        vcommon::quiet_panics();
        let t = Instant::now();
        for _ in 0..n {
            let _ = real::run_program(&p, false);
        }
        eprintln!("{n} in-process runs: {:?} each", t.elapsed() / n);
        return;
    }
    let r = real::run_program(&p, true);
    eprintln!("real: {r:#?}");
}

// ------------------------------------------------------------------------------------------
// Parent
// ------------------------------------------------------------------------------------------

fn parent() {
    let thorough = vcommon::is_thorough();
    let b = bounds(thorough);
    let mut c = vcommon::Check::new("C04", "fault_enumeration");
    c.max_samples = 8;
    c.rule = format!(
        "Every program = pool type (all nine) x base graph (1..=3 objects inserted into slabs of {cap}; per object a unique handle, a shared handle or a shared handle plus clone{k3}; every acyclic assignment 'pooled object i owns the handle of pooled object j' for local/managed pools, so chains up to length 3 with the owned object in the same slab / the next slab / alone in its slab) x triggering operation (remove / drop of each harness-held handle: unique, last shared, non-last shared; drop of the pool; insert_with; with_iter) x script of at most {dev} deviating user-callback occurrences (destructor of object k, insert_with initialiser, with_iter closure; each: panic | len | insert | iterate | drop any other harness-held handle | clone+drop a shared handle; raw pools: panic only, a re-entrant call would need a second &mut). Scripts are built occurrence by occurrence against the reference model so that every deviation actually fires; two programs are distinct when pool, graph, trigger or script differ. Each program runs in its own process; afterwards a fixed battery (len, is_empty, capacity, iteration, bookkeeping probe, insert+remove, reserve(1), shrink_to_fit, drop of every handle, empty-pool checks, drop of the pool) is compared with the model.",
        cap = model::SLAB_CAP,
        k3 = if b.uniform3 { " (with three objects: all unique or all shared)" } else { "" },
        dev = b.max_deviations,
    );

    // Enumerate here as well: counts, distinct hashes, per-pool/per-deviation breakdown, samples.
    let mut per_pool: BTreeMap<String, u64> = BTreeMap::new();
    let mut per_dev: BTreeMap<usize, u64> = BTreeMap::new();
    let mut per_trigger: BTreeMap<String, u64> = BTreeMap::new();
    let mut with_graph = 0_u64;
    let mut total = 0_u64;
    let mut samples: Vec<Value> = Vec::new();
    model::enumerate(&b, &mut |p: &Program| {
        total += 1;
        c.distinct_hash(vcommon::hash_str(&p.text()));
        *per_pool.entry(p.desc().name.to_string()).or_insert(0) += 1;
        *per_dev.entry(p.deviations()).or_insert(0) += 1;
        *per_trigger.entry(real::trigger_name(p).to_string()).or_insert(0) += 1;
        if p.base.owner.iter().any(Option::is_some) {
            with_graph += 1;
        }
        // A few spread-out samples with their model verdict.
        if total % 1151 == 7 && samples.len() < 8 {
            let mut m = Model::new(p);
            let e = m.run_trigger(p.trigger);
            samples.push(json!({"program": p.text(), "model_expects": format!("{e:?}"), "callbacks": m.trace.iter().map(|t| format!("{}={}", t.occ.text(), t.taken.text())).collect::<Vec<_>>()}));
        }
    });
    for s in samples {
        c.sample(s);
    }
    if c.distinct_count() != total {
        c.engine_failure(&format!("enumeration produced {total} programs but only {} distinct ones", c.distinct_count()));
    }

    let par = vcommon::default_parallelism();
    let nshards = par.max(1);
    let jobs: Vec<String> = (0..nshards).map(|i| format!("shard:{i}:{nshards}")).collect();
    let limit = if thorough { Duration::from_secs(3600) } else { Duration::from_secs(600) };
    let results = vcommon::run_jobs(&jobs, par, limit);

    let mut keys: BTreeMap<String, (u64, String, Vec<(String, String)>)> = BTreeMap::new();
    let mut executed = 0_u64;
    for r in &results {
        let Some(v) = r.result_json() else {
            c.engine_failure(&format!("worker {} produced no result (timed out: {}, exit {:?}); stderr tail: {}", r.job, r.timed_out, r.exit_code, tail(&r.stderr)));
        };
        executed += v["executed"].as_u64().unwrap_or(0);
        if let Some(o) = v["outcomes"].as_object() {
            for (k, n) in o {
                c.outcome_n(k, n.as_u64().unwrap_or(0));
            }
        }
        if let Some(errs) = v["errors"].as_array() {
            if let Some(e) = errs.first() {
                c.engine_failure(&format!("harness/model problem (first of {}): {}", errs.len(), e.as_str().unwrap_or("?")));
            }
        }
        for k in v["keys"].as_array().cloned().unwrap_or_default() {
            let e = keys.entry(k["key"].as_str().unwrap_or("?").to_string()).or_insert((0, String::new(), Vec::new()));
            e.0 += k["count"].as_u64().unwrap_or(0);
            if e.1.is_empty() {
                e.1 = k["kind"].as_str().unwrap_or("").to_string();
            }
            for w in k["witnesses"].as_array().cloned().unwrap_or_default() {
                e.2.push((w[0].as_str().unwrap_or("").to_string(), w[1].as_str().unwrap_or("").to_string()));
            }
        }
    }
    c.evaluations = executed;
    if executed != total {
        c.engine_failure(&format!("workers executed {executed} programs, enumeration has {total}"));
    }

    // Shortest witness first (fewest deviations, then fewest objects, then text).
    for (_, (_, _, w)) in keys.iter_mut() {
        w.sort_by_key(|(p, _)| {
            let prog = Program::parse(p);
            (prog.as_ref().map_or(9, Program::deviations), prog.as_ref().map_or(9, |q| q.base.kinds.len()), p.len(), p.clone())
        });
    }

    // Non-termination classes: one witness each, alone, twice, 5 s limit.
    let hang_jobs: Vec<String> = keys.iter().filter(|(_, v)| v.1 == "hang").flat_map(|(_, v)| {
        let p = v.2[0].0.clone();
        [format!("confirm:{p}"), format!("confirm:{p}")]
    }).collect();
    let mut confirmed = 0_u64;
    if !hang_jobs.is_empty() {
        // These processes only sleep; they may all run at once.
        let rs = vcommon::run_jobs(&hang_jobs, hang_jobs.len().min(96), Duration::from_secs(5));
        for r in &rs {
            if r.timed_out {
                confirmed += 1;
            } else {
                c.engine_failure(&format!(
                    "program {} was classified as non-terminating but finished when re-run alone (exit {:?}): nondeterminism",
                    r.job, r.exit_code
                ));
            }
        }
    }
    // Abort classes found through the harness' guard: one witness each, alone, without the
    // guard; the process must really be killed by a signal.
    let abort_jobs: Vec<String> = keys.iter().filter(|(_, v)| v.1 == "abort-guarded").map(|(_, v)| format!("confirm:{}", v.2[0].0)).collect();
    let mut aborted = 0_u64;
    if !abort_jobs.is_empty() {
        let rs = vcommon::run_jobs_env(&abort_jobs, par, Duration::from_secs(30), &[("C04_NO_ABORT_GUARD".to_string(), "1".to_string())]);
        for r in &rs {
            if !r.timed_out && r.exit_code.is_none() && r.stderr.contains("abort") {
                aborted += 1;
            } else {
                c.engine_failure(&format!(
                    "program {} was predicted to abort the process but did not when re-run alone without the guard (exit {:?}, timed out {})",
                    r.job, r.exit_code, r.timed_out
                ));
            }
        }
    }

    for (key, (count, kind, w)) in &keys {
        let (prog, summary) = &w[0];
        let note = match kind.as_str() {
            "hang" => "; witness re-run alone twice: no result within 5 s both times",
            "abort-guarded" => "; witness re-run alone without the harness' guard: killed by SIGABRT",
            _ => "",
        };
        let s = format!("{summary} [{count} programs in this class{note}]");
        c.violation(key, &s, json!({"program": prog, "replay_cmd": format!("C04_REPLAY='{prog}' /verif/target/native/release/c04"), "more_witnesses": w.iter().skip(1).take(2).map(|(p, _)| p.clone()).collect::<Vec<_>>()}));
    }

    c.extra.insert("programs_per_pool".into(), json!(per_pool));
    c.extra.insert("programs_per_deviation_count".into(), json!(per_dev.iter().map(|(k, v)| (k.to_string(), *v)).collect::<BTreeMap<_, _>>()));
    c.extra.insert("programs_per_trigger".into(), json!(per_trigger));
    c.extra.insert("programs_with_object_graph".into(), json!(with_graph));
    c.extra.insert("deviation_bound".into(), json!(b.max_deviations));
    c.extra.insert("violation_classes".into(), json!(keys.iter().map(|(k, v)| (k.clone(), v.0)).collect::<BTreeMap<_, _>>()));
    c.extra.insert("non_termination_confirmations".into(), json!({"runs": hang_jobs.len(), "timed_out_at_5s": confirmed}));
    c.extra.insert("abort_confirmations".into(), json!({"runs": abort_jobs.len(), "killed_by_signal": aborted}));
    c.assumptions.push("User destructors do not start a second panic while the thread is already unwinding (scripted deviations are suppressed when std::thread::panicking()); a process abort is therefore always a panic raised by the pool code itself during unwinding.".into());
    c.assumptions.push("with_iter is documented to keep the pool locked/borrowed for the whole closure ('objects cannot be removed while iteration is in progress'): dropping a last handle from the iteration closure is not enumerated, and insert (all) / len / iterate (managed pools) from that closure are accepted as 'documented-lock' outcomes (self-deadlock or 'already borrowed' panic), after which the battery must still pass. No such statement exists for destructors and insert_with initialisers; there docs/callback-safety.md rule 1 applies (no user callback under a lock or borrow).".into());
    c.assumptions.push("Raw pools: re-entrant calls from callbacks are not enumerated (they need a second &mut to the pool while remove/insert_with/drop holds one, which is undefined behaviour, not a pool defect); only panics are injected there.".into());
    c.assumptions.push("Self-deadlock verdict: a single-threaded process blocked in futex(FUTEX_WAIT[_BITSET]|PRIVATE, timeout=NULL) cannot be woken by anything but a signal; observed twice 1 ms apart with unchanged progress markers. One witness per class is additionally re-run alone twice with a 5 s limit.".into());

    // Anti-vacuity.
    let need = ["returned", "user-panic-propagated"];
    for n in need {
        if !c.outcomes().contains_key(n) {
            c.engine_failure(&format!("outcome class '{n}' never observed: the harness is not exercising what it claims"));
        }
    }
    if with_graph == 0 || per_pool.len() != b.pools.len() {
        c.engine_failure("no object graphs / missing pool types in the enumeration");
    }
    let _ = (POOLS.len(), Family::Raw);
    c.finish();
}

fn tail(s: &str) -> String {
    let n = s.len();
    s[n.saturating_sub(600)..].to_string()
}

//! Worker (`VERIF_JOB=shard:i:n`): runs every n-th program of the enumeration.
//!
//! * The *supervisor* (this process, single-threaded) forks a *batch process* and restarts it
//!   after the program that killed it (an abort = a second panic raised while unwinding).
//! * The batch process runs each program on a fresh thread (fresh thread-locals, a pool nobody
//!   else can reach). A program normally takes ~100 µs. A thread that has not finished after 2 ms
//!   is inspected through /proc/self/task/<tid>: sitting in an untimed private `futex` wait on a
//!   lock that only this thread can reach means it can never be woken — a self-deadlock, decided at
//!   once (seen twice, 1 ms apart, with unchanged progress markers); the thread is left behind.
//!   Anything else gets the full 5 s before it is declared non-terminating.
//! * Results travel through a shared anonymous mapping (they must survive an abort).
//!
//! (fork() per program was the first design; on this VM a bare fork+wait costs ~16 ms.)

use std::collections::BTreeMap;
use std::sync::Arc;
use std::sync::atomic::{AtomicI32, AtomicU8, AtomicU64, Ordering};
use std::time::{Duration, Instant};

use vcommon::serde_json::{Value, json};

use crate::model::{self, Action, Expect, Model, Program};
use crate::real::{self, REC_ACT, REC_CB, REC_PHASE, REC_STEP, RunResult};

const HDR_CUR: usize = 0;
const HDR_NEXT: usize = 8;
const HDR_OUT_LEN: usize = 16;
const HDR_REC: usize = 64;
const OUT_BASE: usize = 4096;
const MAP_SIZE: usize = 1 << 30;
const MAX_LEAKED_THREADS: usize = 1500;

struct Shared(*mut u8);

impl Shared {
    fn u64_at(&self, off: usize) -> &AtomicU64 {
        // SAFETY: inside the mapping, 8-aligned, lives for the whole process.
        unsafe { AtomicU64::from_ptr(self.0.add(off).cast()) }
    }
    fn rec(&self, off: usize) -> u8 {
        // SAFETY: inside the mapping.
        unsafe { AtomicU8::from_ptr(self.0.add(HDR_REC + off)).load(Ordering::SeqCst) }
    }
    fn markers(&self) -> (u8, u8, u8, u8) {
        (self.rec(REC_PHASE), self.rec(REC_CB), self.rec(REC_ACT), self.rec(REC_STEP))
    }
    fn clear_markers(&self) {
        for off in [REC_PHASE, REC_CB, REC_ACT, REC_STEP] {
            // SAFETY: inside the mapping.
            unsafe { AtomicU8::from_ptr(self.0.add(HDR_REC + off)).store(0, Ordering::SeqCst) };
        }
    }
    fn append(&self, line: &str) {
        let len = self.u64_at(HDR_OUT_LEN).load(Ordering::SeqCst) as usize;
        let bytes = line.as_bytes();
        assert!(OUT_BASE + len + bytes.len() + 1 < MAP_SIZE, "result area full");
        // SAFETY: inside the mapping; single writer.
        unsafe {
            std::ptr::copy_nonoverlapping(bytes.as_ptr(), self.0.add(OUT_BASE + len), bytes.len());
            *self.0.add(OUT_BASE + len + bytes.len()) = b'\n';
        }
        self.u64_at(HDR_OUT_LEN).store((len + bytes.len() + 1) as u64, Ordering::SeqCst);
    }
    fn output(&self) -> String {
        let len = self.u64_at(HDR_OUT_LEN).load(Ordering::SeqCst) as usize;
        // SAFETY: inside the mapping; the writer is gone.
        let s = unsafe { std::slice::from_raw_parts(self.0.add(OUT_BASE), len) };
        String::from_utf8_lossy(s).into_owned()
    }
}

enum Fate {
    Done(RunResult),
    FutexDeadlock,
    Timeout,
    ThreadDied,
}

fn thread_futex_blocked(tid: i32) -> bool {
    let Ok(status) = std::fs::read_to_string(format!("/proc/self/task/{tid}/status")) else { return false };
    if !status.lines().any(|l| l.starts_with("State:") && l.contains("S (sleeping)")) {
        return false;
    }
    let Ok(sc) = std::fs::read_to_string(format!("/proc/self/task/{tid}/syscall")) else { return false };
    let f: Vec<&str> = sc.split_whitespace().collect();
    if f.len() < 5 || f[0] != "202" {
        return false;
    }
    let hex = |s: &str| u64::from_str_radix(s.trim_start_matches("0x"), 16).ok();
    let (Some(op), Some(timeout)) = (hex(f[2]), hex(f[4])) else { return false };
    const FUTEX_WAIT: u64 = 0;
    const FUTEX_WAIT_BITSET: u64 = 9;
    const FUTEX_PRIVATE_FLAG: u64 = 128;
    let cmd = op & 0x7f;
    (cmd == FUTEX_WAIT || cmd == FUTEX_WAIT_BITSET) && op & FUTEX_PRIVATE_FLAG != 0 && timeout == 0
}

/// A thread that runs one program after the other until one of them blocks it forever.
struct Runner {
    tx: std::sync::mpsc::Sender<Program>,
    rx: std::sync::mpsc::Receiver<RunResult>,
    tid: Arc<AtomicI32>,
}

fn spawn_runner() -> Runner {
    let (tx, job_rx) = std::sync::mpsc::channel::<Program>();
    let (res_tx, rx) = std::sync::mpsc::channel::<RunResult>();
    let tid = Arc::new(AtomicI32::new(0));
    let t2 = tid.clone();
    std::thread::Builder::new()
        .stack_size(256 << 10)
        .spawn(move || {
            // SAFETY: plain syscall.
            t2.store(unsafe { libc::syscall(libc::SYS_gettid) } as i32, Ordering::SeqCst);
            while let Ok(prog) = job_rx.recv() {
                let r = real::run_program(&prog, false);
                if res_tx.send(r).is_err() {
                    break;
                }
            }
        })
        .expect("spawn runner thread");
    Runner { tx, rx, tid }
}

fn run_on_thread(p: &Program, sh: &Shared, runner: &mut Option<Runner>) -> Fate {
    use std::sync::mpsc::RecvTimeoutError;
    let r = runner.get_or_insert_with(spawn_runner);
    if r.tx.send(p.clone()).is_err() {
        *runner = None;
        return Fate::ThreadDied;
    }
    let start = Instant::now();
    // A program normally takes ~100 µs: spin briefly before paying for a timed wait.
    let mut early = None;
    while start.elapsed() < Duration::from_micros(400) {
        if let Ok(res) = r.rx.try_recv() {
            early = Some(res);
            break;
        }
        std::hint::spin_loop();
    }
    if let Some(res) = early {
        return Fate::Done(res);
    }
    let mut wait = Duration::from_micros(100);
    loop {
        match r.rx.recv_timeout(wait) {
            Ok(res) => return Fate::Done(res),
            Err(RecvTimeoutError::Disconnected) => {
                // A panic escaped run_program and killed the runner.
                *runner = None;
                return Fate::ThreadDied;
            }
            Err(RecvTimeoutError::Timeout) => {}
        }
        wait = (wait * 2).min(Duration::from_millis(100));
        let tid = r.tid.load(Ordering::SeqCst);
        // The program is running (markers say so) and its thread sits in an untimed futex wait.
        if tid != 0 && sh.rec(REC_PHASE) != 0 && thread_futex_blocked(tid) {
            let before = sh.markers();
            let t = Instant::now();
            while t.elapsed() < Duration::from_micros(500) {
                std::hint::spin_loop();
            }
            match r.rx.try_recv() {
                Ok(res) => return Fate::Done(res),
                Err(_) => {
                    if sh.markers() == before && thread_futex_blocked(tid) {
                        // Leave the thread behind: it stays blocked for the rest of this process' life.
                        *runner = None;
                        return Fate::FutexDeadlock;
                    }
                }
            }
        }
        if start.elapsed() > Duration::from_secs(5) {
            *runner = None;
            return Fate::Timeout;
        }
    }
}

/// One result line: outcome class + violations `[key, summary, is_hang]` (+ engine error).
fn line(idx: usize, outcome: &str, viols: &[(String, String, &str)], err: Option<&str>) -> String {
    json!({"i": idx, "o": outcome, "k": viols.iter().map(|(k, s, h)| json!([k, s, h])).collect::<Vec<_>>(), "e": err}).to_string()
}

/// Classifies a program whose thread hung / whose process died, from the progress markers.
fn classify_dead(p: &Program, markers: (u8, u8, u8, u8), symptom: &str, how: &str) -> (String, Vec<(String, String, &'static str)>, Option<String>) {
    let (phase, cb, act, step) = markers;
    let pool = p.desc().name;
    let trig = real::trigger_name(p);
    let why = real::cause(p);
    let hang = symptom == "deadlock";
    let kind = if hang { "hang" } else if symptom == "abort" { "abort" } else { "" };
    let graph_drop = (cb, act) == (1, Action::Drop(0).code());
    if phase == real::PHASE_TRIGGER {
        if hang {
            let mut m = Model::new(p);
            if matches!(m.run_trigger(p.trigger), Expect::DocumentedLock(_)) {
                return ("documented-lock:self-deadlock".into(), Vec::new(), None);
            }
        }
        let outcome = if hang { "non-termination".to_string() } else { format!("process-{symptom}") };
        let summary = if hang {
            format!("{}: {trig} never finishes: {how}; last user-code activity: {} doing a re-entrant {}", p.text(), real::cb_name(cb), Action::class_of_code(act))
        } else {
            format!(
                "{}: the process died ({symptom}) inside {trig}; last user-code activity: {} {} (an abort means a second panic was raised while unwinding)",
                p.text(),
                real::cb_name(cb),
                Action::class_of_code(act)
            )
        };
        (outcome, vec![(real::foreign_key(pool, trig, &why, (cb, act), symptom), summary, kind)], None)
    } else if phase == real::PHASE_BATTERY {
        let what = if hang { "blocks".to_string() } else { format!("dies ({symptom})") };
        if graph_drop {
            (
                format!("battery teardown of an object graph {what}"),
                vec![(
                    real::foreign_key(pool, trig, &why, (cb, act), symptom),
                    format!("{}: while the battery dropped the remaining handles, the destructor of a pooled object dropped the handle it owns: {how}", p.text()),
                    kind,
                )],
                None,
            )
        } else {
            (
                format!("trigger finished, then a later operation {what}"),
                vec![(
                    format!("later-operation-{}-after-{why}:{pool}:{trig}", if hang { "blocks".to_string() } else { symptom.to_string() }),
                    format!("{}: after {trig}, {} does not finish: {how}", p.text(), real::step_name(step)),
                    kind,
                )],
                None,
            )
        }
    } else {
        ("engine-error".into(), Vec::new(), Some(format!("{}: {symptom} in phase {phase}, outside the program proper", p.text())))
    }
}

fn batch_process(programs: &[Program], start: usize, sh: &Shared) -> ! {
    real::set_record(sh.0.wrapping_add(HDR_REC));
    let mut leaked = 0_usize;
    let mut runner: Option<Runner> = None;
    for idx in start..programs.len() {
        let p = &programs[idx];
        sh.clear_markers();
        sh.u64_at(HDR_CUR).store(idx as u64, Ordering::SeqCst);
        let t0 = Instant::now();
        let fate = run_on_thread(p, sh, &mut runner);
        if std::env::var("C04_TIMING").is_ok() {
            eprintln!("T {:?} {} {}", t0.elapsed(), match &fate { Fate::Done(_) => "done", Fate::FutexDeadlock => "deadlock", Fate::Timeout => "timeout", Fate::ThreadDied => "died" }, p.text());
        }
        let mut restart = false;
        let l = match fate {
            Fate::Done(r) => {
                if let Some(e) = &r.engine_error {
                    line(idx, "engine-error", &[], Some(&format!("{}: {e}", p.text())))
                } else {
                    let class = if r.violations.is_empty() || r.class.starts_with("foreign") || r.class.starts_with("process-") { r.class.clone() } else { format!("{}, then the pool misbehaves", r.class) };
                    let kind = if r.abort_witness { "abort-guarded" } else { "" };
                    let v: Vec<(String, String, &str)> = r.violations.iter().map(|(k, s)| (k.clone(), s.clone(), kind)).collect();
                    line(idx, &class, &v, None)
                }
            }
            Fate::FutexDeadlock => {
                leaked += 1;
                let (o, v, e) = classify_dead(p, sh.markers(), "deadlock", "its thread is blocked in an untimed private futex wait on a lock only it can reach (self-deadlock)");
                line(idx, &o, &v, e.as_deref())
            }
            Fate::Timeout => {
                restart = true;
                let (o, v, e) = classify_dead(p, sh.markers(), "deadlock", "still running after 5 s");
                line(idx, &o, &v, e.as_deref())
            }
            Fate::ThreadDied => line(idx, "engine-error", &[], Some(&format!("{}: the program thread died without a result", p.text()))),
        };
        sh.append(&l);
        sh.u64_at(HDR_NEXT).store(idx as u64 + 1, Ordering::SeqCst);
        if restart || leaked >= MAX_LEAKED_THREADS {
            // SAFETY: leave without running destructors of a process full of blocked threads.
            unsafe { libc::_exit(3) };
        }
    }
    // SAFETY: as above.
    unsafe { libc::_exit(0) };
}

pub fn worker(shard: usize, nshards: usize, b: &model::Bounds) {
    let mut programs: Vec<Program> = Vec::new();
    let mut index = 0_usize;
    model::enumerate(b, &mut |p: &Program| {
        if index % nshards == shard {
            programs.push(p.clone());
        }
        index += 1;
    });
    // SAFETY: anonymous shared mapping; pages are committed only when touched.
    let map = unsafe {
        libc::mmap(std::ptr::null_mut(), MAP_SIZE, libc::PROT_READ | libc::PROT_WRITE, libc::MAP_SHARED | libc::MAP_ANONYMOUS | libc::MAP_NORESERVE, -1, 0)
    };
    assert!(map != libc::MAP_FAILED, "mmap failed");
    let sh = Shared(map.cast());

    let mut start = 0_usize;
    let mut restarts = 0_u64;
    while start < programs.len() {
        // SAFETY: the supervisor is single-threaded.
        let pid = unsafe { libc::fork() };
        assert!(pid >= 0, "fork failed");
        if pid == 0 {
            // SAFETY: plain prctl; die with the supervisor.
            unsafe { libc::prctl(libc::PR_SET_PDEATHSIG, libc::SIGKILL) };
            batch_process(&programs, start, &sh);
        }
        let mut status: libc::c_int = 0;
        // SAFETY: our own child.
        unsafe { libc::waitpid(pid, &mut status, 0) };
        let next = sh.u64_at(HDR_NEXT).load(Ordering::SeqCst) as usize;
        if libc::WIFEXITED(status) && (libc::WEXITSTATUS(status) == 0 || libc::WEXITSTATUS(status) == 3) {
            start = next.max(start);
            if libc::WEXITSTATUS(status) == 0 {
                break;
            }
        } else {
            // Died at program `cur` (not yet recorded as finished).
            let cur = sh.u64_at(HDR_CUR).load(Ordering::SeqCst) as usize;
            let symptom = if libc::WIFSIGNALED(status) {
                if libc::WTERMSIG(status) == libc::SIGABRT { "abort".to_string() } else { format!("signal-{}", libc::WTERMSIG(status)) }
            } else {
                format!("exit-{}", libc::WEXITSTATUS(status))
            };
            if cur < next || cur >= programs.len() {
                sh.append(&line(cur, "engine-error", &[], Some(&format!("batch process died ({symptom}) between programs"))));
                start = next.max(start + 1);
            } else {
                let (o, v, e) = classify_dead(&programs[cur], sh.markers(), &symptom, "the whole process was terminated");
                sh.append(&line(cur, &o, &v, e.as_deref()));
                start = cur + 1;
            }
        }
        restarts += 1;
    }

    // Aggregate.
    let mut outcomes: BTreeMap<String, u64> = BTreeMap::new();
    let mut keys: BTreeMap<String, (u64, String, Vec<(String, String)>)> = BTreeMap::new();
    let mut errors: Vec<String> = Vec::new();
    let mut seen = vec![false; programs.len()];
    for l in sh.output().lines() {
        let Ok(v) = vcommon::serde_json::from_str::<Value>(l) else {
            errors.push(format!("unreadable result line {l:?}"));
            continue;
        };
        let i = v["i"].as_u64().unwrap_or(u64::MAX) as usize;
        if i >= programs.len() || seen[i] {
            errors.push(format!("result for program index {i} is out of range or duplicated"));
            continue;
        }
        seen[i] = true;
        *outcomes.entry(v["o"].as_str().unwrap_or("?").to_string()).or_insert(0) += 1;
        if let Some(e) = v["e"].as_str() {
            if errors.len() < 5 {
                errors.push(e.to_string());
            }
        }
        for k in v["k"].as_array().cloned().unwrap_or_default() {
            let e = keys.entry(k[0].as_str().unwrap_or("?").to_string()).or_insert((0, String::new(), Vec::new()));
            e.0 += 1;
            if e.1.is_empty() {
                e.1 = k[2].as_str().unwrap_or("").to_string();
            }
            if e.2.len() < 3 {
                e.2.push((programs[i].text(), k[1].as_str().unwrap_or("").to_string()));
            }
        }
    }
    let executed = seen.iter().filter(|s| **s).count();
    if executed != programs.len() {
        errors.push(format!("{} of {} programs have no result", programs.len() - executed, programs.len()));
    }
    let keys_json: Vec<Value> = keys
        .iter()
        .map(|(k, a)| json!({"key": k, "count": a.0, "kind": a.1, "witnesses": a.2.iter().map(|(p, s)| json!([p, s])).collect::<Vec<_>>()}))
        .collect();
    vcommon::child_result(&json!({"executed": executed, "outcomes": outcomes, "keys": keys_json, "errors": errors, "batch_restarts": restarts}));
}

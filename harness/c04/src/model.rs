//! Programs, the reference model ("what the property promises"), and the deviation-bounded
//! enumeration of programs.
//!
//! A program = pool type + base object graph + one triggering operation + a *script* that says
//! what each user-callback occurrence (destructor of object k / the `insert_with` initialiser /
//! the iteration closure) does instead of simply returning. The model executes the program on an
//! ideal pool: every re-entrant call a callback makes just works, a panicking callback unwinds to
//! the caller of the triggering operation, an object whose destructor started counts as destroyed.

use std::collections::BTreeMap;
use std::fmt::Write as _;

#[derive(Clone, Copy, PartialEq, Eq, Debug)]
pub enum Family {
    Raw,
    Local,
    Managed,
}

#[derive(Clone, Copy, Debug)]
pub struct PoolDesc {
    pub name: &'static str,
    pub family: Family,
    pub has_iter: bool,
}

pub const POOLS: [PoolDesc; 9] = [
    PoolDesc { name: "RawOpaquePool", family: Family::Raw, has_iter: true },
    PoolDesc { name: "OpaquePool", family: Family::Managed, has_iter: true },
    PoolDesc { name: "LocalOpaquePool", family: Family::Local, has_iter: true },
    PoolDesc { name: "PinnedPool", family: Family::Managed, has_iter: true },
    PoolDesc { name: "BlindPool", family: Family::Managed, has_iter: false },
    PoolDesc { name: "RawPinnedPool", family: Family::Raw, has_iter: true },
    PoolDesc { name: "LocalPinnedPool", family: Family::Local, has_iter: true },
    PoolDesc { name: "RawBlindPool", family: Family::Raw, has_iter: false },
    PoolDesc { name: "LocalBlindPool", family: Family::Local, has_iter: false },
];

pub fn pool_by_name(name: &str) -> Option<usize> {
    POOLS.iter().position(|p| p.name == name)
}

/// Slots per slab forced through the verification hook.
pub const SLAB_CAP: usize = 2;

/// First id handed to objects created by the trigger / by re-entrant inserts.
pub const FRESH_BASE: u64 = 100;

#[derive(Clone, Copy, PartialEq, Eq, Hash, Debug, PartialOrd, Ord)]
pub enum Occ {
    /// Destructor of the object with this id.
    Dtor(u64),
    /// The `insert_with` initialiser of the triggering operation.
    Init,
    /// The iteration closure of the triggering operation.
    Iter,
}

impl Occ {
    pub fn text(self) -> String {
        match self {
            Occ::Dtor(k) => format!("dtor{k}"),
            Occ::Init => "init".into(),
            Occ::Iter => "iter".into(),
        }
    }
    pub fn kind(self) -> &'static str {
        match self {
            Occ::Dtor(_) => "destructor",
            Occ::Init => "init-closure",
            Occ::Iter => "iter-closure",
        }
    }
    fn parse(s: &str) -> Option<Occ> {
        if s == "init" {
            Some(Occ::Init)
        } else if s == "iter" {
            Some(Occ::Iter)
        } else {
            s.strip_prefix("dtor")?.parse().ok().map(Occ::Dtor)
        }
    }
}

#[derive(Clone, Copy, PartialEq, Eq, Hash, Debug)]
pub enum Action {
    Return,
    Panic,
    Len,
    Insert,
    Iterate,
    /// Drop the harness-held handle with this id (removes the object when it is the last one).
    Drop(usize),
    /// Clone the harness-held shared handle with this id and drop the clone.
    CloneDrop(usize),
}

impl Action {
    pub fn text(self) -> String {
        match self {
            Action::Return => "return".into(),
            Action::Panic => "panic".into(),
            Action::Len => "len".into(),
            Action::Insert => "insert".into(),
            Action::Iterate => "iterate".into(),
            Action::Drop(h) => format!("drop:h{h}"),
            Action::CloneDrop(h) => format!("clonedrop:h{h}"),
        }
    }
    /// Class used in violation keys.
    pub fn class(self) -> &'static str {
        match self {
            Action::Return => "return",
            Action::Panic => "panic",
            Action::Len | Action::Iterate => "query",
            Action::Insert => "insert",
            Action::Drop(_) => "drop",
            Action::CloneDrop(_) => "clonedrop",
        }
    }
    pub fn code(self) -> u8 {
        match self {
            Action::Return => 0,
            Action::Panic => 1,
            Action::Len => 2,
            Action::Insert => 3,
            Action::Iterate => 4,
            Action::Drop(_) => 5,
            Action::CloneDrop(_) => 6,
        }
    }
    pub fn class_of_code(c: u8) -> &'static str {
        match c {
            1 => "panic",
            2 | 4 => "query",
            3 => "insert",
            5 => "drop",
            6 => "clonedrop",
            _ => "return",
        }
    }
    fn parse(s: &str) -> Option<Action> {
        Some(match s {
            "return" => Action::Return,
            "panic" => Action::Panic,
            "len" => Action::Len,
            "insert" => Action::Insert,
            "iterate" => Action::Iterate,
            _ => {
                if let Some(h) = s.strip_prefix("drop:h") {
                    Action::Drop(h.parse().ok()?)
                } else if let Some(h) = s.strip_prefix("clonedrop:h") {
                    Action::CloneDrop(h.parse().ok()?)
                } else {
                    return None;
                }
            }
        })
    }
}

#[derive(Clone, Copy, PartialEq, Eq, Hash, Debug)]
pub enum Kind {
    /// One unique handle.
    U,
    /// Converted to shared; one handle.
    S1,
    /// Converted to shared and cloned; the first handle always stays with the harness.
    S2,
}

#[derive(Clone, PartialEq, Eq, Hash, Debug)]
pub struct Base {
    pub kinds: Vec<Kind>,
    /// `owner[j] = Some(i)`: pooled object i owns the (ownable) handle of pooled object j.
    pub owner: Vec<Option<usize>>,
}

#[derive(Clone, Copy, PartialEq, Eq, Hash, Debug)]
pub enum Trigger {
    /// Raw pools: `pool.remove(handle)`. Counted pools: drop the handle.
    DropHandle(usize),
    DropPool,
    InsertWith,
    Iterate,
}

#[derive(Clone, PartialEq, Eq, Hash, Debug)]
pub struct Program {
    pub pool: usize,
    pub base: Base,
    pub trigger: Trigger,
    pub script: Vec<(Occ, Action)>,
}

impl Program {
    pub fn desc(&self) -> &'static PoolDesc {
        &POOLS[self.pool]
    }

    /// Compact, parseable text form: `Pool|U,S2>0|drop:h1|dtor0=panic;dtor1=len`.
    pub fn text(&self) -> String {
        let mut s = String::new();
        s.push_str(self.desc().name);
        s.push('|');
        for (j, k) in self.base.kinds.iter().enumerate() {
            if j > 0 {
                s.push(',');
            }
            s.push_str(match k {
                Kind::U => "U",
                Kind::S1 => "S1",
                Kind::S2 => "S2",
            });
            if let Some(o) = self.base.owner[j] {
                let _ = write!(s, ">{o}");
            }
        }
        s.push('|');
        match self.trigger {
            Trigger::DropHandle(h) => {
                let _ = write!(s, "drop:h{h}");
            }
            Trigger::DropPool => s.push_str("droppool"),
            Trigger::InsertWith => s.push_str("insert_with"),
            Trigger::Iterate => s.push_str("iterate"),
        }
        s.push('|');
        for (i, (o, a)) in self.script.iter().enumerate() {
            if i > 0 {
                s.push(';');
            }
            let _ = write!(s, "{}={}", o.text(), a.text());
        }
        s
    }

    pub fn parse(text: &str) -> Option<Program> {
        let parts: Vec<&str> = text.split('|').collect();
        if parts.len() != 4 {
            return None;
        }
        let pool = pool_by_name(parts[0])?;
        let mut kinds = Vec::new();
        let mut owner = Vec::new();
        for item in parts[1].split(',') {
            let (k, o) = match item.split_once('>') {
                Some((k, o)) => (k, Some(o.parse().ok()?)),
                None => (item, None),
            };
            kinds.push(match k {
                "U" => Kind::U,
                "S1" => Kind::S1,
                "S2" => Kind::S2,
                _ => return None,
            });
            owner.push(o);
        }
        let trigger = match parts[2] {
            "droppool" => Trigger::DropPool,
            "insert_with" => Trigger::InsertWith,
            "iterate" => Trigger::Iterate,
            t => Trigger::DropHandle(t.strip_prefix("drop:h")?.parse().ok()?),
        };
        let mut script = Vec::new();
        if !parts[3].is_empty() {
            for item in parts[3].split(';') {
                let (o, a) = item.split_once('=')?;
                script.push((Occ::parse(o)?, Action::parse(a)?));
            }
        }
        Some(Program { pool, base: Base { kinds, owner }, trigger, script })
    }

    pub fn deviations(&self) -> usize {
        self.script.len()
    }
}

// ------------------------------------------------------------------------------------------
// Reference model
// ------------------------------------------------------------------------------------------

#[derive(Clone, Debug)]
pub struct MHandle {
    pub obj: u64,
    pub shared: bool,
    /// `None` = held by the harness (in its registry).
    pub holder: Option<u64>,
    pub live: bool,
}

#[derive(Clone, Debug)]
pub struct MObj {
    pub alive: bool,
    pub refs: usize,
    pub owned: Vec<usize>,
}

#[derive(Clone, Debug)]
pub struct TraceItem {
    pub occ: Occ,
    pub candidates: Vec<Action>,
    pub taken: Action,
}

/// What the model expects of the triggering operation.
#[derive(Clone, PartialEq, Eq, Debug)]
pub enum Expect {
    Returns,
    /// Propagates the user panic raised by this callback occurrence.
    UserPanic(Occ),
    /// A callback called into the pool from inside `with_iter`, whose documentation says the pool
    /// stays locked/borrowed for the whole closure: blocking or an "already borrowed" panic is the
    /// documented behaviour (and plain success would be fine too). The call has no effect.
    DocumentedLock(Action),
}

pub struct Model {
    pub desc: &'static PoolDesc,
    pub objs: BTreeMap<u64, MObj>,
    pub handles: Vec<MHandle>,
    pub next_fresh: u64,
    pub unwinding: bool,
    pub first_panic: Option<Occ>,
    pub doc_lock: Option<Action>,
    pub trace: Vec<TraceItem>,
    script: Vec<(Occ, Action)>,
    ctx: Vec<Occ>,
    pub pool_dropped: bool,
    /// Set when a scripted action was not among the candidates (harness bug / stale script).
    pub bad_script: Option<String>,
}

impl Model {
    pub fn new(p: &Program) -> Self {
        let mut m = Model {
            desc: p.desc(),
            objs: BTreeMap::new(),
            handles: Vec::new(),
            next_fresh: FRESH_BASE,
            unwinding: false,
            first_panic: None,
            doc_lock: None,
            trace: Vec::new(),
            script: p.script.clone(),
            ctx: Vec::new(),
            pool_dropped: false,
            bad_script: None,
        };
        // Base: objects 0..n in insertion order; handle ids in object order; for S2 the first
        // handle stays with the harness and the second is the ownable one.
        for (j, k) in p.base.kinds.iter().enumerate() {
            let id = j as u64;
            let refs = if *k == Kind::S2 { 2 } else { 1 };
            m.objs.insert(id, MObj { alive: true, refs, owned: Vec::new() });
            if *k == Kind::S2 {
                m.handles.push(MHandle { obj: id, shared: true, holder: None, live: true });
            }
            m.handles.push(MHandle { obj: id, shared: *k != Kind::U, holder: None, live: true });
        }
        for j in 0..p.base.kinds.len() {
            if let Some(o) = p.base.owner[j] {
                let h = ownable_handle(&p.base, j);
                m.handles[h].holder = Some(o as u64);
                m.objs.get_mut(&(o as u64)).unwrap().owned.push(h);
            }
        }
        m
    }

    pub fn live_objects(&self) -> Vec<u64> {
        self.objs.iter().filter(|(_, o)| o.alive).map(|(k, _)| *k).collect()
    }

    pub fn harness_handles(&self) -> Vec<usize> {
        (0..self.handles.len()).filter(|h| self.handles[*h].live && self.handles[*h].holder.is_none()).collect()
    }

    fn candidates(&self, occ: Occ) -> Vec<Action> {
        let mut c = vec![Action::Panic];
        if self.desc.family == Family::Raw {
            // A re-entrant call into a raw pool needs a second `&mut` to it while `remove` /
            // `insert_with` / `drop` holds the first: not expressible without undefined behaviour.
            return c;
        }
        let in_iter = matches!(occ, Occ::Iter);
        c.push(Action::Len);
        c.push(Action::Insert);
        if self.desc.has_iter {
            c.push(Action::Iterate);
        }
        for h in self.harness_handles() {
            // Dropping the last handle from inside the iteration closure is what the with_iter
            // documentation says cannot happen ("objects cannot be removed while iteration is in
            // progress"): not offered.
            if !in_iter {
                c.push(Action::Drop(h));
            }
            if self.handles[h].shared {
                c.push(Action::CloneDrop(h));
            }
        }
        c
    }

    fn callback(&mut self, occ: Occ) {
        let (candidates, taken) = if self.unwinding {
            (Vec::new(), Action::Return)
        } else {
            let c = self.candidates(occ);
            let t = self.script.iter().find(|(o, _)| *o == occ).map_or(Action::Return, |(_, a)| *a);
            if t != Action::Return && !c.contains(&t) {
                self.bad_script = Some(format!("{}={} is not possible here", occ.text(), t.text()));
            }
            (c, t)
        };
        self.trace.push(TraceItem { occ, candidates, taken });
        self.ctx.push(occ);
        self.perform(occ, taken);
        self.ctx.pop();
    }

    fn perform(&mut self, occ: Occ, a: Action) {
        // Inside the iteration closure the pool is documented to be locked: anything that needs
        // the lock is "documented lock" territory. Local pools take a shared borrow for with_iter,
        // so queries are fine there.
        if occ == Occ::Iter {
            let needs_lock = match a {
                Action::Insert => true,
                Action::Len | Action::Iterate => self.desc.family == Family::Managed,
                _ => false,
            };
            if needs_lock {
                self.doc_lock = Some(a);
                self.unwinding = true;
                if a == Action::Insert {
                    // The object handed to the rejected insert is dropped by the unwinding.
                    let id = self.next_fresh;
                    self.next_fresh += 1;
                    self.objs.insert(id, MObj { alive: false, refs: 0, owned: Vec::new() });
                    self.trace.push(TraceItem { occ: Occ::Dtor(id), candidates: Vec::new(), taken: Action::Return });
                }
                return;
            }
        }
        match a {
            Action::Return | Action::Len | Action::Iterate | Action::CloneDrop(_) => {}
            Action::Panic => {
                self.unwinding = true;
                self.first_panic.get_or_insert(occ);
            }
            Action::Insert => {
                let id = self.next_fresh;
                self.next_fresh += 1;
                self.objs.insert(id, MObj { alive: true, refs: 1, owned: Vec::new() });
                self.handles.push(MHandle { obj: id, shared: false, holder: None, live: true });
            }
            Action::Drop(h) => self.drop_handle(h),
        }
    }

    fn drop_handle(&mut self, h: usize) {
        if !self.handles[h].live {
            self.bad_script = Some(format!("handle h{h} dropped twice"));
            return;
        }
        self.handles[h].live = false;
        let o = self.handles[h].obj;
        let obj = self.objs.get_mut(&o).unwrap();
        obj.refs -= 1;
        if obj.refs == 0 {
            self.destroy(o);
        }
    }

    fn destroy(&mut self, o: u64) {
        self.objs.get_mut(&o).unwrap().alive = false;
        self.callback(Occ::Dtor(o));
        // Fields are dropped after `Drop::drop`, also when that panicked.
        let owned = std::mem::take(&mut self.objs.get_mut(&o).unwrap().owned);
        for h in owned {
            self.drop_handle(h);
        }
    }

    /// Executes the trigger; returns what the property promises about it.
    pub fn run_trigger(&mut self, t: Trigger) -> Expect {
        match t {
            Trigger::DropHandle(h) => self.drop_handle(h),
            Trigger::InsertWith => {
                let id = self.next_fresh;
                self.next_fresh += 1;
                self.callback(Occ::Init);
                if !self.unwinding {
                    self.objs.insert(id, MObj { alive: true, refs: 1, owned: Vec::new() });
                    self.handles.push(MHandle { obj: id, shared: false, holder: None, live: true });
                }
            }
            Trigger::Iterate => {
                if self.desc.family != Family::Raw {
                    self.callback(Occ::Iter);
                }
            }
            Trigger::DropPool => {
                self.pool_dropped = true;
                if self.desc.family == Family::Raw {
                    // Slab by slab, slot by slot; a slab catches each destructor panic, finishes
                    // its slots and re-raises the first; later slabs are dropped while unwinding.
                    let ids: Vec<u64> = self.live_objects();
                    let mut pending = false;
                    for chunk in ids.chunks(SLAB_CAP) {
                        for o in chunk {
                            let was = self.unwinding;
                            // Raw handles are plain pointers: the object goes, handles dangle.
                            for hd in self.handles.iter_mut().filter(|hd| hd.obj == *o) {
                                hd.live = false;
                            }
                            self.objs.get_mut(o).unwrap().refs = 0;
                            self.destroy(*o);
                            if self.unwinding && !was {
                                self.unwinding = false;
                                pending = true;
                            }
                        }
                        if pending {
                            self.unwinding = true;
                        }
                    }
                }
            }
        }
        if let Some(a) = self.doc_lock {
            Expect::DocumentedLock(a)
        } else if self.unwinding {
            Expect::UserPanic(self.first_panic.expect("unwinding without a panic origin"))
        } else {
            Expect::Returns
        }
    }
}

/// Id of the handle of base object j that may be given to an owner.
pub fn ownable_handle(base: &Base, j: usize) -> usize {
    let mut h = 0;
    for (i, k) in base.kinds.iter().enumerate() {
        let n = if *k == Kind::S2 { 2 } else { 1 };
        if i == j {
            return h + n - 1;
        }
        h += n;
    }
    unreachable!()
}

// ------------------------------------------------------------------------------------------
// Enumeration
// ------------------------------------------------------------------------------------------

pub struct Bounds {
    pub pools: Vec<usize>,
    pub max_objects: usize,
    /// With three objects: only the all-unique and the all-shared kind vectors (quick tier).
    pub uniform3: bool,
    pub max_deviations: usize,
}

fn acyclic(owner: &[Option<usize>]) -> bool {
    for start in 0..owner.len() {
        let mut cur = start;
        let mut steps = 0;
        while let Some(o) = owner[cur] {
            cur = o;
            steps += 1;
            if steps > owner.len() {
                return false;
            }
        }
    }
    true
}

pub fn bases(family: Family, b: &Bounds) -> Vec<Base> {
    let mut out = Vec::new();
    for n in 1..=b.max_objects {
        let kind_choices: Vec<Kind> = if family == Family::Raw { vec![Kind::U, Kind::S1] } else { vec![Kind::U, Kind::S1, Kind::S2] };
        // All kind vectors.
        let mut kind_vecs: Vec<Vec<Kind>> = vec![Vec::new()];
        for _ in 0..n {
            let mut next = Vec::new();
            for kv in &kind_vecs {
                for k in &kind_choices {
                    let mut v = kv.clone();
                    v.push(*k);
                    next.push(v);
                }
            }
            kind_vecs = next;
        }
        if n >= 3 && b.uniform3 && family != Family::Raw {
            kind_vecs = vec![vec![Kind::U; n], vec![Kind::S1; n]];
        }
        // All owner forests (raw pools: no ownership, a raw handle has no destructor).
        let mut owner_vecs: Vec<Vec<Option<usize>>> = vec![Vec::new()];
        for j in 0..n {
            let mut next = Vec::new();
            for ov in &owner_vecs {
                let mut v = ov.clone();
                v.push(None);
                next.push(v);
                if family != Family::Raw {
                    for i in 0..n {
                        if i != j {
                            let mut v = ov.clone();
                            v.push(Some(i));
                            next.push(v);
                        }
                    }
                }
            }
            owner_vecs = next;
        }
        owner_vecs.retain(|o| acyclic(o));
        for kv in &kind_vecs {
            for ov in &owner_vecs {
                out.push(Base { kinds: kv.clone(), owner: ov.clone() });
            }
        }
    }
    out
}

fn triggers(pool: usize, base: &Base) -> Vec<Trigger> {
    let p = Program { pool, base: base.clone(), trigger: Trigger::DropPool, script: Vec::new() };
    let m = Model::new(&p);
    let mut t: Vec<Trigger> = m.harness_handles().into_iter().map(Trigger::DropHandle).collect();
    t.push(Trigger::DropPool);
    t.push(Trigger::InsertWith);
    if POOLS[pool].has_iter {
        t.push(Trigger::Iterate);
    }
    t
}

/// Calls `f` for every program within the bounds, each exactly once.
pub fn enumerate(b: &Bounds, f: &mut dyn FnMut(&Program)) {
    for &pool in &b.pools {
        for base in bases(POOLS[pool].family, b) {
            for trigger in triggers(pool, &base) {
                let mut p = Program { pool, base: base.clone(), trigger, script: Vec::new() };
                extend(&mut p, b.max_deviations, f);
            }
        }
    }
}

fn extend(p: &mut Program, max_dev: usize, f: &mut dyn FnMut(&Program)) {
    f(p);
    if p.script.len() >= max_dev {
        return;
    }
    let mut m = Model::new(p);
    let _ = m.run_trigger(p.trigger);
    // Only occurrences after the last scripted one may be deviated next (each script is produced
    // once, in occurrence order).
    let start = match p.script.last() {
        None => 0,
        Some((last, _)) => m.trace.iter().position(|t| t.occ == *last).map_or(usize::MAX, |i| i + 1),
    };
    if start == usize::MAX {
        return;
    }
    let trace = m.trace;
    for item in trace.iter().skip(start) {
        for a in &item.candidates {
            p.script.push((item.occ, *a));
            extend(p, max_dev, f);
            p.script.pop();
        }
    }
}

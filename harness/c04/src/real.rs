//! The real side: instrumented payload, the callback environment, one uniform face over the nine
//! pool types, and the executor (base construction, trigger, post-trigger comparison, battery).

use std::any::Any;
use std::cell::RefCell;
use std::collections::BTreeMap;
use std::mem::MaybeUninit;
use std::panic::{AssertUnwindSafe, catch_unwind};
use std::ptr::NonNull;
use std::rc::Rc;
use std::sync::atomic::{AtomicPtr, Ordering};

use infinity_pool::verif::PoolProbe;
use infinity_pool::{
    BlindPool, BlindPooled, BlindPooledMut, LocalBlindPool, LocalBlindPooled, LocalBlindPooledMut, LocalOpaquePool, LocalPinnedPool,
    LocalPooled, LocalPooledMut, OpaquePool, PinnedPool, Pooled, PooledMut, RawBlindPool, RawBlindPooled, RawBlindPooledMut,
    RawOpaquePool, RawPinnedPool, RawPooled, RawPooledMut,
};

use crate::model::{Action, Expect, Family, Kind, Model, Occ, Program, SLAB_CAP, Trigger, ownable_handle};

// ------------------------------------------------------------------------------------------
// Progress record (shared memory slot written by the program process, read by the worker)
// ------------------------------------------------------------------------------------------

pub const REC_SIZE: usize = 1024;
pub const REC_PHASE: usize = 0;
pub const REC_CB: usize = 1;
pub const REC_ACT: usize = 2;
pub const REC_STEP: usize = 3;

pub const PHASE_BUILD: u8 = 1;
pub const PHASE_TRIGGER: u8 = 2;
pub const PHASE_BATTERY: u8 = 3;

static REC: AtomicPtr<u8> = AtomicPtr::new(std::ptr::null_mut());

pub fn set_record(p: *mut u8) {
    REC.store(p, Ordering::SeqCst);
}

fn rec_set(off: usize, v: u8) {
    let p = REC.load(Ordering::Relaxed);
    if !p.is_null() {
        // SAFETY: the record is REC_SIZE bytes of shared memory owned by this program process.
        unsafe { p.add(off).write_volatile(v) };
    }
}

fn rec_get(off: usize) -> u8 {
    let p = REC.load(Ordering::Relaxed);
    if p.is_null() {
        0
    } else {
        // SAFETY: as above.
        unsafe { p.add(off).read_volatile() }
    }
}

pub fn cb_code(o: Occ) -> u8 {
    match o {
        Occ::Dtor(_) => 1,
        Occ::Init => 2,
        Occ::Iter => 3,
    }
}

pub fn cb_name(c: u8) -> &'static str {
    match c {
        1 => "destructor",
        2 => "init-closure",
        3 => "iter-closure",
        _ => "none",
    }
}

// ------------------------------------------------------------------------------------------
// Payload and callback dispatch
// ------------------------------------------------------------------------------------------

const LIVE: u64 = 0x11FE_C0DE_11FE_C0DE;
const DEAD: u64 = 0xDEAD_DEAD_DEAD_DEAD;

/// The pooled object. `owned` holds handles to other objects of the same pool (type-erased); they
/// are dropped by the drop glue after `Drop::drop`, i.e. from inside the pool's removal code.
pub struct Obj {
    pub id: u64,
    canary: u64,
    pub owned: RefCell<Vec<Owned>>,
}

/// A handle owned by a pooled object. Its drop (run by the owner's drop glue, i.e. from inside the
/// pool's removal code) is a re-entrant handle drop; the progress marker says so.
pub struct Owned(#[allow(dead_code)] Box<dyn Any>);

impl Owned {
    /// Takes the handle out without the re-entrancy bookkeeping of `Drop`.
    fn into_inner(mut self) -> Box<dyn Any> {
        std::mem::replace(&mut self.0, Box::new(()))
    }
}

impl Drop for Owned {
    fn drop(&mut self) {
        let prev = (rec_get(REC_CB), rec_get(REC_ACT));
        if rec_get(REC_PHASE) == PHASE_TRIGGER || rec_get(REC_PHASE) == PHASE_BATTERY {
            rec_set(REC_CB, 1);
            rec_set(REC_ACT, Action::Drop(0).code());
        }
        // Replace the box by an empty one so that the handle is dropped here, between the markers.
        let inner = std::mem::replace(&mut self.0, Box::new(()));
        if std::thread::panicking() && !no_abort_guard() {
            // We are being dropped while the owner's destructor unwinds. A panic leaving this drop
            // would abort the whole process ("panic in a destructor during cleanup"). To keep the
            // batch alive the panic is caught and recorded as "would have aborted"; one witness per
            // class is re-run without this guard and must really die with SIGABRT.
            if let Err(e) = catch_unwind(AssertUnwindSafe(move || drop(inner))) {
                let msg = vcommon::panic_message(&*e);
                G.with(|g| {
                    g.borrow_mut().would_abort.get_or_insert(msg);
                });
                return; // markers stay on the failing drop
            }
        } else {
            drop(inner);
        }
        rec_set(REC_CB, prev.0);
        rec_set(REC_ACT, prev.1);
    }
}

// SAFETY: the harness is single-threaded; the bound is only needed to satisfy `T: Send` of the
// thread-safe pools.
unsafe impl Send for Obj {}
// SAFETY: as above.
unsafe impl Sync for Obj {}

impl Obj {
    pub fn new(id: u64) -> Self {
        Obj { id, canary: LIVE, owned: RefCell::new(Vec::new()) }
    }
}

impl Drop for Obj {
    fn drop(&mut self) {
        let ok = self.canary == LIVE;
        self.canary = DEAD;
        G.with(|g| {
            let mut g = g.borrow_mut();
            if !ok {
                g.bad_canary.push(self.id);
            }
        });
        on_callback(Occ::Dtor(self.id));
    }
}

fn no_abort_guard() -> bool {
    static V: std::sync::OnceLock<bool> = std::sync::OnceLock::new();
    *V.get_or_init(|| std::env::var("C04_NO_ABORT_GUARD").is_ok())
}

/// Payload of the panics raised by scripted user code.
pub struct UserPanic(pub Occ);

#[derive(Default)]
struct Glob {
    armed: bool,
    script: Vec<(Occ, Action)>,
    trace: Vec<Occ>,
    dtor_count: BTreeMap<u64, u32>,
    bad_canary: Vec<u64>,
    would_abort: Option<String>,
    next_fresh: u64,
    verbose: bool,
}

trait Ctx {
    fn act(&self, a: Action);
}

thread_local! {
    static G: RefCell<Glob> = RefCell::new(Glob::default());
    static CTX: RefCell<Option<Rc<dyn Ctx>>> = const { RefCell::new(None) };
}

fn fresh_id() -> u64 {
    G.with(|g| {
        let mut g = g.borrow_mut();
        let id = g.next_fresh;
        g.next_fresh += 1;
        id
    })
}

pub fn on_callback(occ: Occ) {
    let (action, verbose) = G.with(|g| {
        let mut g = g.borrow_mut();
        if let Occ::Dtor(id) = occ {
            *g.dtor_count.entry(id).or_insert(0) += 1;
        }
        g.trace.push(occ);
        // Well-behaved user code does not panic (or do anything fancy) while already unwinding.
        let a = if g.armed && !std::thread::panicking() {
            g.script.iter().find(|(o, _)| *o == occ).map_or(Action::Return, |(_, a)| *a)
        } else {
            Action::Return
        };
        (a, g.verbose)
    });
    if verbose {
        eprintln!("  callback {} -> {}", occ.text(), action.text());
    }
    if action == Action::Return {
        return;
    }
    let prev = (rec_get(REC_CB), rec_get(REC_ACT));
    rec_set(REC_CB, cb_code(occ));
    rec_set(REC_ACT, action.code());
    if action == Action::Panic {
        std::panic::panic_any(UserPanic(occ));
    }
    let ctx = CTX.with(|c| c.borrow().clone()).expect("callback environment");
    ctx.act(action);
    if verbose {
        eprintln!("  callback {} action {} completed", occ.text(), action.text());
    }
    rec_set(REC_CB, prev.0);
    rec_set(REC_ACT, prev.1);
}

// ------------------------------------------------------------------------------------------
// Uniform face over the pools
// ------------------------------------------------------------------------------------------

pub trait PoolApi: Sized + 'static {
    type M: 'static;
    type S: 'static;
    fn new() -> Self;
    fn insert(&self, v: Obj) -> Self::M;
    /// `insert_with` whose initialiser first calls `f` and then writes `Obj::new(id)`.
    fn insert_with(&self, f: &mut dyn FnMut(), id: u64) -> Self::M;
    fn len(&self) -> usize;
    fn is_empty(&self) -> bool;
    fn capacity(&self) -> usize;
    fn reserve(&self, n: usize);
    fn shrink_to_fit(&self);
    /// Iterates (counted pools: inside `with_iter`, calling `f` first); `None` = no iteration API.
    fn iterate(&self, f: &mut dyn FnMut()) -> Option<Vec<usize>>;
    fn probes(&self) -> Vec<PoolProbe>;
    fn m_ptr(h: &Self::M) -> usize;
    fn into_shared(h: Self::M) -> Self::S;
    fn clone_s(h: &Self::S) -> Self::S;
    fn remove_m(&self, h: Self::M);
    fn remove_s(&self, h: Self::S);
}

fn thin<U: ?Sized>(p: NonNull<U>) -> usize {
    p.as_ptr() as *const () as usize
}

fn collect<X, I: Iterator<Item = NonNull<X>>>(it: I) -> Vec<usize> {
    let mut v = Vec::new();
    for p in it {
        v.push(thin(p));
        if v.len() > 64 {
            break; // runaway iterator; the caller reports the mismatch
        }
    }
    v
}

/// Raw pools take `&mut self`; they are never re-entered, so a `RefCell` is enough.
pub struct RawW<P>(RefCell<P>);

macro_rules! raw_impl {
    ($P:ty, $M:ident, $S:ident, $new:expr, $cap:expr, $reserve:expr, $iter:expr, $probes:expr) => {
        impl PoolApi for RawW<$P> {
            type M = $M<Obj>;
            type S = $S<Obj>;
            fn new() -> Self {
                RawW(RefCell::new($new))
            }
            fn insert(&self, v: Obj) -> Self::M {
                self.0.borrow_mut().insert(v)
            }
            fn insert_with(&self, f: &mut dyn FnMut(), id: u64) -> Self::M {
                // SAFETY: the closure fully initialises the object.
                unsafe {
                    self.0.borrow_mut().insert_with(|u: &mut MaybeUninit<Obj>| {
                        f();
                        u.write(Obj::new(id));
                    })
                }
            }
            fn len(&self) -> usize {
                self.0.borrow().len()
            }
            fn is_empty(&self) -> bool {
                self.0.borrow().is_empty()
            }
            fn capacity(&self) -> usize {
                let f: fn(&$P) -> usize = $cap;
                f(&self.0.borrow())
            }
            fn reserve(&self, n: usize) {
                let f: fn(&mut $P, usize) = $reserve;
                f(&mut self.0.borrow_mut(), n);
            }
            fn shrink_to_fit(&self) {
                self.0.borrow_mut().shrink_to_fit();
            }
            fn iterate(&self, _f: &mut dyn FnMut()) -> Option<Vec<usize>> {
                let f: fn(&$P) -> Option<Vec<usize>> = $iter;
                f(&self.0.borrow())
            }
            fn probes(&self) -> Vec<PoolProbe> {
                let f: fn(&$P) -> Vec<PoolProbe> = $probes;
                f(&self.0.borrow())
            }
            fn m_ptr(h: &Self::M) -> usize {
                thin(h.ptr())
            }
            fn into_shared(h: Self::M) -> Self::S {
                h.into_shared()
            }
            fn clone_s(h: &Self::S) -> Self::S {
                *h
            }
            fn remove_m(&self, h: Self::M) {
                // SAFETY: the harness only removes objects its model says are in the pool.
                unsafe { self.0.borrow_mut().remove(h) }
            }
            fn remove_s(&self, h: Self::S) {
                // SAFETY: as above.
                unsafe { self.0.borrow_mut().remove(h) }
            }
        }
    };
}

raw_impl!(
    RawOpaquePool,
    RawPooledMut,
    RawPooled,
    RawOpaquePool::with_layout_of::<Obj>(),
    |p| p.capacity(),
    |p, n| p.reserve(n),
    |p| Some(collect(p.iter())),
    |p| vec![p.verif_probe()]
);
raw_impl!(
    RawPinnedPool<Obj>,
    RawPooledMut,
    RawPooled,
    RawPinnedPool::<Obj>::new(),
    |p| p.capacity(),
    |p, n| p.reserve(n),
    |p| Some(collect(p.iter())),
    |p| vec![p.verif_probe()]
);
raw_impl!(
    RawBlindPool,
    RawBlindPooledMut,
    RawBlindPooled,
    RawBlindPool::new(),
    |p| p.capacity_for::<Obj>(),
    |p, n| p.reserve_for::<Obj>(n),
    |_p| None,
    |p| p.verif_probe()
);

macro_rules! counted_impl {
    ($P:ty, $M:ident, $S:ident, $new:expr, $cap:expr, $reserve:expr, $iter:expr, $probes:expr) => {
        impl PoolApi for $P {
            type M = $M<Obj>;
            type S = $S<Obj>;
            fn new() -> Self {
                $new
            }
            fn insert(&self, v: Obj) -> Self::M {
                <$P>::insert(self, v)
            }
            fn insert_with(&self, f: &mut dyn FnMut(), id: u64) -> Self::M {
                // SAFETY: the closure fully initialises the object.
                unsafe {
                    <$P>::insert_with(self, |u: &mut MaybeUninit<Obj>| {
                        f();
                        u.write(Obj::new(id));
                    })
                }
            }
            fn len(&self) -> usize {
                <$P>::len(self)
            }
            fn is_empty(&self) -> bool {
                <$P>::is_empty(self)
            }
            fn capacity(&self) -> usize {
                let f: fn(&$P) -> usize = $cap;
                f(self)
            }
            fn reserve(&self, n: usize) {
                let f: fn(&$P, usize) = $reserve;
                f(self, n);
            }
            fn shrink_to_fit(&self) {
                <$P>::shrink_to_fit(self);
            }
            fn iterate(&self, f: &mut dyn FnMut()) -> Option<Vec<usize>> {
                let g: fn(&$P, &mut dyn FnMut()) -> Option<Vec<usize>> = $iter;
                g(self, f)
            }
            fn probes(&self) -> Vec<PoolProbe> {
                let f: fn(&$P) -> Vec<PoolProbe> = $probes;
                f(self)
            }
            fn m_ptr(h: &Self::M) -> usize {
                thin(h.ptr())
            }
            fn into_shared(h: Self::M) -> Self::S {
                h.into_shared()
            }
            fn clone_s(h: &Self::S) -> Self::S {
                h.clone()
            }
            fn remove_m(&self, h: Self::M) {
                drop(h);
            }
            fn remove_s(&self, h: Self::S) {
                drop(h);
            }
        }
    };
}

macro_rules! with_iter_fn {
    () => {
        |p, f| {
            Some(p.with_iter(|it| {
                f();
                collect(it)
            }))
        }
    };
}

counted_impl!(
    OpaquePool,
    PooledMut,
    Pooled,
    OpaquePool::with_layout_of::<Obj>(),
    |p| p.capacity(),
    |p, n| p.reserve(n),
    with_iter_fn!(),
    |p| vec![p.verif_probe()]
);
counted_impl!(
    LocalOpaquePool,
    LocalPooledMut,
    LocalPooled,
    LocalOpaquePool::with_layout_of::<Obj>(),
    |p| p.capacity(),
    |p, n| p.reserve(n),
    with_iter_fn!(),
    |p| vec![p.verif_probe()]
);
counted_impl!(
    PinnedPool<Obj>,
    PooledMut,
    Pooled,
    PinnedPool::<Obj>::new(),
    |p| p.capacity(),
    |p, n| p.reserve(n),
    with_iter_fn!(),
    |p| vec![p.verif_probe()]
);
counted_impl!(
    LocalPinnedPool<Obj>,
    LocalPooledMut,
    LocalPooled,
    LocalPinnedPool::<Obj>::new(),
    |p| p.capacity(),
    |p, n| p.reserve(n),
    with_iter_fn!(),
    |p| vec![p.verif_probe()]
);
counted_impl!(
    BlindPool,
    BlindPooledMut,
    BlindPooled,
    BlindPool::new(),
    |p| p.capacity_for::<Obj>(),
    |p, n| p.reserve_for::<Obj>(n),
    |_p, _f| None,
    |p| p.verif_probe()
);
counted_impl!(
    LocalBlindPool,
    LocalBlindPooledMut,
    LocalBlindPooled,
    LocalBlindPool::new(),
    |p| p.capacity_for::<Obj>(),
    |p, n| p.reserve_for::<Obj>(n),
    |_p, _f| None,
    |p| p.verif_probe()
);

// ------------------------------------------------------------------------------------------
// Environment reachable from callbacks
// ------------------------------------------------------------------------------------------

enum Hnd<P: PoolApi> {
    M(P::M),
    S(P::S),
}

struct Env<P: PoolApi> {
    pool: RefCell<Option<P>>,
    reg: RefCell<Vec<Option<Hnd<P>>>>,
    addr: RefCell<BTreeMap<u64, usize>>,
}

impl<P: PoolApi> Env<P> {
    fn with_pool<R>(&self, f: impl FnOnce(&P) -> R) -> R {
        let g = self.pool.borrow();
        f(g.as_ref().expect("pool already dropped"))
    }

    fn take(&self, h: usize) -> Hnd<P> {
        self.reg.borrow_mut().get_mut(h).and_then(Option::take).unwrap_or_else(|| panic!("HARNESS: handle h{h} is not in the registry"))
    }

    fn push_m(&self, id: u64, h: P::M) {
        self.addr.borrow_mut().insert(id, P::m_ptr(&h));
        self.reg.borrow_mut().push(Some(Hnd::M(h)));
    }

    fn remove(&self, h: Hnd<P>) {
        // Counted pools: this is a plain handle drop (the pool argument is unused).
        match h {
            Hnd::M(m) => self.with_pool_or_drop_m(m),
            Hnd::S(s) => self.with_pool_or_drop_s(s),
        }
    }

    fn with_pool_or_drop_m(&self, m: P::M) {
        let g = self.pool.borrow();
        match g.as_ref() {
            Some(p) => p.remove_m(m),
            None => drop(m), // counted pools after the pool handle is gone
        }
    }

    fn with_pool_or_drop_s(&self, s: P::S) {
        let g = self.pool.borrow();
        match g.as_ref() {
            Some(p) => p.remove_s(s),
            None => drop(s),
        }
    }
}

impl<P: PoolApi> Ctx for Env<P> {
    fn act(&self, a: Action) {
        match a {
            Action::Return | Action::Panic => {}
            Action::Len => {
                let _ = self.with_pool(|p| p.len());
            }
            Action::Insert => {
                let id = fresh_id();
                let h = self.with_pool(|p| p.insert(Obj::new(id)));
                self.push_m(id, h);
            }
            Action::Iterate => {
                let _ = self.with_pool(|p| p.iterate(&mut || {}));
            }
            Action::Drop(h) => {
                let hv = self.take(h);
                self.remove(hv);
            }
            Action::CloneDrop(h) => {
                let c = {
                    let reg = self.reg.borrow();
                    match reg.get(h).and_then(Option::as_ref) {
                        Some(Hnd::S(s)) => P::clone_s(s),
                        _ => panic!("HARNESS: h{h} is not a live shared handle"),
                    }
                };
                drop(c);
            }
        }
    }
}

// ------------------------------------------------------------------------------------------
// Executor
// ------------------------------------------------------------------------------------------

#[derive(Default, Debug)]
pub struct RunResult {
    /// Outcome class of the triggering operation.
    pub class: String,
    pub violations: Vec<(String, String)>,
    pub engine_error: Option<String>,
    /// The violation is a predicted process abort (caught by the harness' guard).
    pub abort_witness: bool,
}

pub fn trigger_name(p: &Program) -> &'static str {
    match p.trigger {
        Trigger::DropPool => "drop-pool",
        Trigger::InsertWith => "insert_with",
        Trigger::Iterate => "with_iter",
        Trigger::DropHandle(h) => {
            if p.desc().family == Family::Raw {
                return "remove";
            }
            let m = Model::new(p);
            let hd = &m.handles[h];
            if !hd.shared {
                "drop-unique"
            } else if m.objs[&hd.obj].refs == 1 {
                "drop-last-shared"
            } else {
                "drop-shared"
            }
        }
    }
}

/// Describes the deviations of a script in class terms, e.g. `destructor-panic`.
pub fn cause(p: &Program) -> String {
    let mut t: Vec<String> = p.script.iter().map(|(o, a)| format!("{}-{}", o.kind(), a.class())).collect();
    t.sort();
    t.dedup();
    if t.is_empty() { "no-fault".into() } else { t.join("+") }
}

pub fn msg_class(msg: &str) -> &'static str {
    if msg.contains("already mutably borrowed") || msg.contains("already borrowed") {
        "borrow-panic"
    } else if msg.contains("we never panic while holding this lock") {
        "poisoned"
    } else if msg.contains("HARNESS") {
        "harness"
    } else {
        "foreign-panic"
    }
}

fn short(s: &str) -> String {
    let mut t: String = s.chars().take(220).collect();
    if t.len() < s.len() {
        t.push('…');
    }
    t
}

enum TrigOutcome {
    Returned,
    User(Occ),
    Foreign(String),
}

pub fn run_program(p: &Program, verbose: bool) -> RunResult {
    match p.pool {
        0 => run::<RawW<RawOpaquePool>>(p, verbose),
        1 => run::<OpaquePool>(p, verbose),
        2 => run::<LocalOpaquePool>(p, verbose),
        3 => run::<PinnedPool<Obj>>(p, verbose),
        4 => run::<BlindPool>(p, verbose),
        5 => run::<RawW<RawPinnedPool<Obj>>>(p, verbose),
        6 => run::<LocalPinnedPool<Obj>>(p, verbose),
        7 => run::<RawW<RawBlindPool>>(p, verbose),
        8 => run::<LocalBlindPool>(p, verbose),
        _ => unreachable!(),
    }
}

fn run<P: PoolApi>(p: &Program, verbose: bool) -> RunResult {
    let mut res = RunResult::default();
    let pool_name = p.desc().name;
    let trig = trigger_name(p);
    let why = cause(p);

    // ---- model
    let mut model = Model::new(p);
    let expect = model.run_trigger(p.trigger);
    if let Some(b) = &model.bad_script {
        res.engine_error = Some(format!("script does not fit the program: {b}"));
        return res;
    }

    // ---- build the base on the real pool
    rec_set(REC_PHASE, PHASE_BUILD);
    infinity_pool::verif::set_slab_capacity_override(Some(SLAB_CAP));
    G.with(|g| {
        *g.borrow_mut() =
            Glob { armed: false, script: p.script.clone(), next_fresh: crate::model::FRESH_BASE, verbose, ..Glob::default() };
    });
    let env: Rc<Env<P>> = Rc::new(Env { pool: RefCell::new(Some(P::new())), reg: RefCell::new(Vec::new()), addr: RefCell::new(BTreeMap::new()) });
    CTX.with(|c| *c.borrow_mut() = Some(env.clone() as Rc<dyn Ctx>));

    let built = catch_unwind(AssertUnwindSafe(|| {
        for (j, k) in p.base.kinds.iter().enumerate() {
            let id = j as u64;
            let m = env.with_pool(|pl| pl.insert(Obj::new(id)));
            env.addr.borrow_mut().insert(id, P::m_ptr(&m));
            match k {
                Kind::U => env.reg.borrow_mut().push(Some(Hnd::M(m))),
                Kind::S1 => env.reg.borrow_mut().push(Some(Hnd::S(P::into_shared(m)))),
                Kind::S2 => {
                    let s = P::into_shared(m);
                    let c = P::clone_s(&s);
                    env.reg.borrow_mut().push(Some(Hnd::S(s)));
                    env.reg.borrow_mut().push(Some(Hnd::S(c)));
                }
            }
        }
        for j in 0..p.base.kinds.len() {
            if let Some(o) = p.base.owner[j] {
                let h = env.take(ownable_handle(&p.base, j));
                let owner_addr = env.addr.borrow()[&(o as u64)];
                // SAFETY: the owner object is alive and pinned in the pool; only its interior-
                // mutable `owned` list is touched and nothing else references it right now.
                let owner: &Obj = unsafe { &*(owner_addr as *const Obj) };
                owner.owned.borrow_mut().push(Owned(Box::new(h)));
            }
        }
    }));
    if let Err(e) = built {
        res.engine_error = Some(format!("base construction panicked: {}", vcommon::panic_message(&*e)));
        return res;
    }

    // ---- trigger
    rec_set(REC_PHASE, PHASE_TRIGGER);
    G.with(|g| g.borrow_mut().armed = true);
    let mut iter_yield: Option<Vec<usize>> = None;
    let r = catch_unwind(AssertUnwindSafe(|| match p.trigger {
        Trigger::DropHandle(h) => {
            let hv = env.take(h);
            env.remove(hv);
        }
        Trigger::DropPool => {
            let pl = env.pool.borrow_mut().take();
            if p.desc().family == Family::Raw {
                // Raw handles are plain pointers that dangle from now on; the harness forgets them.
                for e in env.reg.borrow_mut().iter_mut() {
                    std::mem::forget(e.take());
                }
            }
            drop(pl);
        }
        Trigger::InsertWith => {
            let id = fresh_id();
            let m = env.with_pool(|pl| pl.insert_with(&mut || on_callback(Occ::Init), id));
            env.push_m(id, m);
        }
        Trigger::Iterate => {
            iter_yield = env.with_pool(|pl| pl.iterate(&mut || on_callback(Occ::Iter)));
        }
    }));
    G.with(|g| g.borrow_mut().armed = false);
    let outcome = match r {
        Ok(()) => TrigOutcome::Returned,
        Err(e) => match e.downcast_ref::<UserPanic>() {
            Some(UserPanic(o)) => TrigOutcome::User(*o),
            None => TrigOutcome::Foreign(vcommon::panic_message(&*e)),
        },
    };
    let marker = (rec_get(REC_CB), rec_get(REC_ACT));

    if let Some(msg) = G.with(|g| g.borrow_mut().would_abort.take()) {
        res.class = "process-abort".into();
        res.violations.push((
            foreign_key(pool_name, trig, &why, marker, "abort"),
            short(&format!(
                "{}: inside {trig}, while the user's panic was unwinding through the destructor of a pooled object, dropping the handle that object owns raised a second panic (\"{msg}\"): the process aborts",
                p.text()
            )),
        ));
        res.abort_witness = true;
        CTX.with(|c| *c.borrow_mut() = None);
        std::mem::forget(env);
        return res;
    }

    let mut acceptable = false;
    match (&outcome, &expect) {
        (TrigOutcome::Returned, Expect::Returns) => {
            res.class = "returned".into();
            acceptable = true;
        }
        (TrigOutcome::User(o), Expect::UserPanic(e)) if o == e => {
            res.class = "user-panic-propagated".into();
            acceptable = true;
        }
        (TrigOutcome::Foreign(msg), Expect::DocumentedLock(_)) if msg_class(msg) == "borrow-panic" => {
            res.class = "documented-lock:borrow-panic".into();
            acceptable = true;
        }
        (TrigOutcome::Returned | TrigOutcome::User(_), Expect::DocumentedLock(a)) => {
            res.engine_error = Some(format!("re-entrant {} inside with_iter did not fail: the model of the documented lock needs revisiting", a.text()));
            return res;
        }
        (TrigOutcome::Foreign(msg), _) => {
            let mc = msg_class(msg);
            if mc == "harness" {
                res.engine_error = Some(format!("harness panic: {msg}"));
                return res;
            }
            res.class = format!("foreign-panic:{mc}");
            let key = foreign_key(pool_name, trig, &why, marker, mc);
            res.violations.push((
                key,
                short(&format!(
                    "{}: {trig} expected to {} but panicked with a panic that is not the user's: \"{msg}\" (while running {} action {})",
                    p.text(),
                    expect_text(&expect),
                    cb_name(marker.0),
                    Action::class_of_code(marker.1)
                )),
            ));
        }
        (TrigOutcome::Returned, Expect::UserPanic(e)) => {
            res.class = "panic-swallowed".into();
            res.violations.push((
                format!("panic-swallowed-after-{why}:{pool_name}:{trig}"),
                short(&format!("{}: the panic of {} was not propagated by {trig}", p.text(), e.text())),
            ));
        }
        (TrigOutcome::User(o), _) => {
            res.class = "unexpected-user-panic".into();
            res.violations.push((
                format!("wrong-panic-propagated-after-{why}:{pool_name}:{trig}"),
                short(&format!("{}: {trig} propagated the panic of {} but expected {}", p.text(), o.text(), expect_text(&expect))),
            ));
        }
    }
    if !acceptable {
        // State after a foreign panic is not defined by the model; record what can be said without one.
        let after = aftermath::<P>(&env);
        if let Some((_, s)) = res.violations.last_mut() {
            s.push_str(&format!(" | afterwards: {after}"));
        }
        CTX.with(|c| *c.borrow_mut() = None);
        std::mem::forget(env);
        return res;
    }

    // ---- post-trigger comparison and battery
    rec_set(REC_PHASE, PHASE_BATTERY);
    rec_set(REC_CB, 0);
    rec_set(REC_ACT, 0);
    let mut viols: Vec<(String, String)> = Vec::new();
    let batt = catch_unwind(AssertUnwindSafe(|| battery::<P>(p, &model, &env, iter_yield.as_deref(), &mut viols)));
    let step = rec_get(REC_STEP);
    match batt {
        Ok(Some(err)) => {
            res.engine_error = Some(err);
            return res;
        }
        Ok(None) => {}
        Err(e) => {
            let msg = vcommon::panic_message(&*e);
            let mc = msg_class(&msg);
            if mc == "harness" {
                res.engine_error = Some(format!("harness panic in battery: {msg}"));
                return res;
            }
            let marker = (rec_get(REC_CB), rec_get(REC_ACT));
            if marker == (1, Action::Drop(0).code()) && mc != "poisoned" {
                // The battery's own teardown dropped a pooled object that owns a handle of the same
                // pool: the same event as a triggering drop of that object, and keyed like it.
                res.violations.push((
                    foreign_key(pool_name, trig, &why, marker, mc),
                    short(&format!(
                        "{}: while the battery dropped the remaining handles, the destructor of a pooled object dropped the handle it owns and that drop panicked: \"{msg}\"",
                        p.text()
                    )),
                ));
            } else {
                let what = if mc == "poisoned" { "poisoned".to_string() } else { format!("later-{}-panics", step_name(step).replace(' ', "-")) };
                viols.push((what, format!("{} panicked afterwards: \"{msg}\"", step_name(step))));
            }
            // The pool is in an unknown state; do not run its destructor.
            std::mem::forget(env.pool.borrow_mut().take());
        }
    }
    for (what, detail) in viols {
        res.violations.push((
            format!("{what}-after-{why}:{pool_name}:{trig}"),
            short(&format!("{} ({trig} {}): {detail}", p.text(), expect_text(&expect))),
        ));
    }
    CTX.with(|c| *c.borrow_mut() = None);
    // Whatever is left (after a failed battery) must not run more pool code.
    std::mem::forget(env);
    res
}

fn expect_text(e: &Expect) -> String {
    match e {
        Expect::Returns => "return".into(),
        Expect::UserPanic(o) => format!("propagate the panic of {}", o.text()),
        Expect::DocumentedLock(a) => format!("hit the documented with_iter lock at {}", a.text()),
    }
}

/// Key of a violation where the triggering operation died with a foreign panic / hung / aborted.
pub fn foreign_key(pool: &str, trig: &str, why: &str, marker: (u8, u8), symptom: &str) -> String {
    let act = Action::class_of_code(marker.1);
    if marker.0 != 0 && act != "panic" && act != "return" {
        // One class per (callback kind, pool type, symptom): the defect is "this callback runs
        // under the pool's guard"; which pool method the callback then calls does not matter.
        format!("reentrant-call-in-{}:{pool}:{symptom}", cb_name(marker.0))
    } else {
        format!("{symptom}-after-{why}:{pool}:{trig}")
    }
}

pub fn step_name(s: u8) -> &'static str {
    match s {
        0 => "post-trigger comparison",
        1 => "len/is_empty",
        2 => "capacity",
        3 => "iteration",
        4 => "bookkeeping probe",
        5 => "insert+remove of a fresh object",
        6 => "reserve(1)",
        7 => "shrink_to_fit",
        8 => "drop of the remaining handles",
        9 => "final len/shrink_to_fit/capacity",
        10 => "drop of the pool",
        _ => "?",
    }
}

fn aftermath<P: PoolApi>(env: &Rc<Env<P>>) -> String {
    let r = catch_unwind(AssertUnwindSafe(|| {
        let g = env.pool.borrow();
        match g.as_ref() {
            None => "pool gone".to_string(),
            Some(pl) => {
                let len = pl.len();
                let it = pl.iterate(&mut || {}).map(|v| v.len());
                format!("len()={len} iteration yields {it:?}")
            }
        }
    }));
    match r {
        Ok(s) => s,
        Err(e) => format!("len()/iteration panic: \"{}\"", vcommon::panic_message(&*e)),
    }
}

fn check_probes(probes: &[PoolProbe], expect_len: usize) -> Option<String> {
    let mut total = 0;
    for p in probes {
        let cap = p.slab_capacity;
        let mut occ_total = 0;
        let mut lowest = None;
        for (si, s) in p.slabs.iter().enumerate() {
            let occupied = s.slots.iter().filter(|x| x.is_none()).count();
            occ_total += occupied;
            if s.count != occupied {
                return Some(format!("slab {si}: cached count {} but {occupied} occupied slots", s.count));
            }
            // The free list must visit every vacant slot exactly once and end past the last slot
            // (a slot that is vacant but unreachable is lost capacity; the slab then believes it
            // has room and the next insert lands outside its allocation).
            let mut seen = vec![false; s.slots.len()];
            let mut cur = s.free_head;
            let mut walked = 0_usize;
            while cur < s.slots.len() {
                if seen[cur] {
                    return Some(format!("slab {si}: free list revisits slot {cur}"));
                }
                seen[cur] = true;
                match s.slots[cur] {
                    Some(next) => cur = next,
                    None => return Some(format!("slab {si}: free list reaches occupied slot {cur}")),
                }
                walked += 1;
            }
            let vacant = s.slots.len() - occupied;
            if walked != vacant {
                return Some(format!("slab {si}: free list visits {walked} slots but {vacant} slots are vacant"));
            }
            let has_room = occupied < cap;
            let bit = p.vacancy_blocks.get(si / 64).map(|b| (b >> (si % 64)) & 1 == 1);
            if bit != Some(has_room) {
                return Some(format!("slab {si}: {occupied}/{cap} occupied but vacancy bit = {bit:?}"));
            }
            if has_room && lowest.is_none() {
                lowest = Some(si);
            }
        }
        if p.length != occ_total {
            return Some(format!("cached length {} but {occ_total} occupied slots", p.length));
        }
        if p.vacancy_len_bits != p.slabs.len() {
            return Some(format!("vacancy map covers {} slabs, pool has {}", p.vacancy_len_bits, p.slabs.len()));
        }
        if p.next_vacancy != lowest {
            return Some(format!("cached next vacancy {:?} but lowest slab with room is {lowest:?}", p.next_vacancy));
        }
        total += occ_total;
    }
    if total != expect_len {
        return Some(format!("{total} occupied slots but {expect_len} live objects"));
    }
    None
}

/// Returns `Some(engine error)` when harness and model disagree in a way that is not a verdict.
fn battery<P: PoolApi>(p: &Program, model: &Model, env: &Rc<Env<P>>, iter_yield: Option<&[usize]>, v: &mut Vec<(String, String)>) -> Option<String> {
    rec_set(REC_STEP, 0);
    let live = model.live_objects();
    let l = live.len();
    let live_addrs = |env: &Env<P>| -> Vec<usize> {
        let a = env.addr.borrow();
        let mut x: Vec<usize> = live.iter().map(|id| a[id]).collect();
        x.sort_unstable();
        x
    };

    // -- post-trigger comparison: callbacks that ran, destructor counts, registry
    let (trace, counts, bad_canary) = G.with(|g| {
        let g = g.borrow();
        (g.trace.clone(), g.dtor_count.clone(), g.bad_canary.clone())
    });
    let model_trace: Vec<Occ> = model.trace.iter().map(|t| t.occ).collect();
    if trace != model_trace {
        let mut a = trace.clone();
        let mut b = model_trace.clone();
        a.sort();
        b.sort();
        if a == b {
            return Some(format!("callbacks ran in another order than the model assumes: real {trace:?} model {model_trace:?}"));
        }
        // A different *set* of callbacks is a verdict: something was destroyed that should not
        // have been, or was not destroyed.
        for o in &b {
            if !a.contains(o) {
                v.push(("callback-not-run".into(), format!("{} never ran", o.text())));
            }
        }
        for o in &a {
            if !b.contains(o) {
                v.push(("unexpected-callback".into(), format!("{} ran but should not have", o.text())));
            }
        }
    }
    if !bad_canary.is_empty() {
        v.push(("double-destroy".into(), format!("destructor ran on already destroyed objects {bad_canary:?}")));
    }
    for (id, o) in &model.objs {
        let c = counts.get(id).copied().unwrap_or(0);
        let want = u32::from(!o.alive);
        if c > 1 {
            v.push(("double-destroy".into(), format!("object {id} destroyed {c} times")));
        } else if c != want && trace == model_trace {
            v.push(("destroy-mismatch".into(), format!("object {id}: destructor ran {c} times, expected {want}")));
        }
    }
    {
        let reg = env.reg.borrow();
        let real: Vec<usize> = (0..reg.len()).filter(|h| reg[*h].is_some()).collect();
        if real != model.harness_handles() {
            return Some(format!("registry {real:?} differs from the model's harness-held handles {:?}", model.harness_handles()));
        }
    }
    if let Some(y) = iter_yield {
        let mut y = y.to_vec();
        y.sort_unstable();
        if y != live_addrs(env) {
            v.push(("iteration-mismatch".into(), format!("the triggering with_iter yielded {} pointers for {l} live objects", y.len())));
        }
    }

    let has_pool = env.pool.borrow().is_some();
    if has_pool {
        let mut bookkeeping: Option<String> = None;
        let note = |b: &mut Option<String>, s: String| {
            if b.is_none() {
                *b = Some(s);
            }
        };
        let probe_inconsistent = std::cell::Cell::new(false);
        let steps = catch_unwind(AssertUnwindSafe(|| {
        rec_set(REC_STEP, 1);
        let (len, empty) = env.with_pool(|pl| (pl.len(), pl.is_empty()));
        if len != l {
            note(&mut bookkeeping, format!("len() = {len} with {l} live objects"));
        }
        if empty != (len == 0) {
            note(&mut bookkeeping, format!("is_empty() = {empty} with len() = {len}"));
        }
        rec_set(REC_STEP, 2);
        let cap = env.with_pool(|pl| pl.capacity());
        if cap < l || cap % SLAB_CAP != 0 {
            note(&mut bookkeeping, format!("capacity() = {cap} with {l} live objects (slabs of {SLAB_CAP})"));
        }
        rec_set(REC_STEP, 3);
        if let Some(mut y) = env.with_pool(|pl| pl.iterate(&mut || {})) {
            y.sort_unstable();
            if y != live_addrs(env) {
                note(&mut bookkeeping, format!("iteration yields {} objects, {l} are live", y.len()));
            }
        }
        rec_set(REC_STEP, 4);
        if let Some(e) = check_probes(&env.with_pool(|pl| pl.probes()), l) {
            // Inconsistent slab bookkeeping: any further mutation may write outside a slab and
            // corrupt the heap of this process. Report it and stop using this pool.
            note(&mut bookkeeping, e);
            probe_inconsistent.set(true);
            return;
        }
        rec_set(REC_STEP, 5);
        {
            let h = env.with_pool(|pl| pl.insert(Obj::new(900)));
            let len1 = env.with_pool(|pl| pl.len());
            env.with_pool(|pl| pl.remove_m(h));
            let len2 = env.with_pool(|pl| pl.len());
            let c = G.with(|g| g.borrow().dtor_count.get(&900).copied().unwrap_or(0));
            if len1 != len + 1 || len2 != len || c != 1 {
                note(&mut bookkeeping, format!("insert+remove of a fresh object: len {len} -> {len1} -> {len2}, destructor ran {c} times"));
            }
        }
        rec_set(REC_STEP, 6);
        env.with_pool(|pl| pl.reserve(1));
        let cap = env.with_pool(|pl| pl.capacity());
        if cap < l + 1 {
            note(&mut bookkeeping, format!("capacity() = {cap} after reserve(1) with {l} live objects"));
        }
        rec_set(REC_STEP, 7);
        env.with_pool(|pl| pl.shrink_to_fit());
        let (len, cap) = env.with_pool(|pl| (pl.len(), pl.capacity()));
        if len != l || cap < l {
            note(&mut bookkeeping, format!("after shrink_to_fit: len() = {len}, capacity() = {cap}, {l} live objects"));
        }
        if let Some(mut y) = env.with_pool(|pl| pl.iterate(&mut || {})) {
            y.sort_unstable();
            if y != live_addrs(env) {
                note(&mut bookkeeping, format!("after shrink_to_fit iteration yields {} objects, {l} are live", y.len()));
            }
        }
        if let Some(e) = check_probes(&env.with_pool(|pl| pl.probes()), l) {
            note(&mut bookkeeping, format!("after shrink_to_fit: {e}"));
        }
        }));
        if let Err(e) = steps {
            // A wrong count was already seen and a later step then panicked on it: one finding.
            let Some(b) = bookkeeping.take() else { std::panic::resume_unwind(e) };
            let msg = vcommon::panic_message(&*e);
            if msg_class(&msg) == "harness" {
                std::panic::resume_unwind(e);
            }
            v.push(("bookkeeping-skipped".into(), format!("{b}; then {} panicked: \"{msg}\"", step_name(rec_get(REC_STEP)))));
            std::mem::forget(env.pool.borrow_mut().take());
            return None;
        }
        if probe_inconsistent.get() {
            v.push(("bookkeeping-skipped".into(), bookkeeping.take().unwrap_or_default()));
            std::mem::forget(env.pool.borrow_mut().take());
            return None;
        }
        if let Some(b) = bookkeeping {
            v.push(("bookkeeping-skipped".into(), b));
        }
    }

    // -- drop every remaining handle. The battery is a neutral observer: it first takes the owned
    // handles out of the surviving objects, so that its own teardown never drops a handle from
    // inside a destructor (that event belongs to the triggering operation, not to the battery).
    rec_set(REC_STEP, 8);
    let mut dismantled: Vec<Box<dyn Any>> = Vec::new();
    if v.is_empty() {
        for id in &live {
            let a = env.addr.borrow()[id];
            // SAFETY: the model and the post-trigger comparison agree that this object is alive.
            let o: &Obj = unsafe { &*(a as *const Obj) };
            for h in o.owned.borrow_mut().drain(..) {
                dismantled.push(h.into_inner());
            }
        }
    }
    drop(dismantled);
    let n = env.reg.borrow().len();
    let raw_pool_gone = p.desc().family == Family::Raw && !has_pool;
    for h in 0..n {
        let hv = env.reg.borrow_mut()[h].take();
        if let Some(hv) = hv {
            if raw_pool_gone {
                // Dangling plain pointer into a pool that no longer exists: just forget it.
                std::mem::forget(hv);
            } else {
                env.remove(hv);
            }
        }
    }
    let counts = G.with(|g| g.borrow().dtor_count.clone());
    let created: Vec<u64> = env.addr.borrow().keys().copied().collect();
    for id in created {
        let c = counts.get(&id).copied().unwrap_or(0);
        if c != 1 {
            v.push((
                if c == 0 { "leak".into() } else { "double-destroy".into() },
                format!("after dropping every handle, object {id} was destroyed {c} times"),
            ));
        }
    }
    if has_pool {
        rec_set(REC_STEP, 9);
        let (len, empty) = env.with_pool(|pl| (pl.len(), pl.is_empty()));
        env.with_pool(|pl| pl.shrink_to_fit());
        let cap = env.with_pool(|pl| pl.capacity());
        if len != 0 || !empty || cap != 0 {
            v.push(("bookkeeping-skipped".into(), format!("empty pool reports len() = {len}, is_empty() = {empty}, capacity() after shrink_to_fit = {cap}")));
        }
        rec_set(REC_STEP, 10);
        let pl = env.pool.borrow_mut().take();
        drop(pl);
    }
    // Collapse repeated symptom names (keep the first detail of each).
    let mut seen: Vec<String> = Vec::new();
    v.retain(|(k, _)| {
        if seen.contains(k) {
            false
        } else {
            seen.push(k.clone());
            true
        }
    });
    None
}

//! C08 (schedule half) — thread-safe auto-reset / manual-reset events under loom.
//!
//! The real `events` + `awaiter_set` code runs with loom atomics / Mutex / Arc. For every program
//! of a generated family (kind x storage x optional pre-registered waiter x per-thread operation
//! sequences) loom explores every interleaving; every execution's recorded call/return history
//! (plus a post-join probe of every waiter still alive and of the event) is checked for
//! linearizability by brute force against the sequential specification, where "real time" is the
//! happens-before the harness itself creates (program order, spawn, join) — see DESIGN.md §2.2.

use std::collections::{BTreeMap, BTreeSet, HashMap};
use std::future::Future;
use std::pin::Pin;
use std::sync::Mutex as StdMutex;
use std::sync::atomic::{AtomicUsize, Ordering as O};
use std::task::{Context, Poll, RawWaker, RawWakerVTable, Waker};
use std::time::Duration;

use events::{AutoResetEvent, EmbeddedAutoResetEvent, EmbeddedManualResetEvent, ManualResetEvent};
use vcommon::serde_json::{Value, json};
use vcommon::{Check, child_job, child_result};

// ------------------------------------------------------------------------------------------
// Counting wakers (observation only: std atomics, no scheduling points)
// ------------------------------------------------------------------------------------------

const MAX_WAKERS: usize = 32;
static W_WAKE: [AtomicUsize; MAX_WAKERS] = [const { AtomicUsize::new(0) }; MAX_WAKERS];
static W_BORN: [AtomicUsize; MAX_WAKERS] = [const { AtomicUsize::new(0) }; MAX_WAKERS];
static W_GONE: [AtomicUsize; MAX_WAKERS] = [const { AtomicUsize::new(0) }; MAX_WAKERS];
static NEXT_WAKER: AtomicUsize = AtomicUsize::new(0);

static VTABLE: RawWakerVTable = RawWakerVTable::new(
    |d| {
        W_BORN[d as usize].fetch_add(1, O::SeqCst);
        RawWaker::new(d, &VTABLE)
    },
    |d| {
        W_WAKE[d as usize].fetch_add(1, O::SeqCst);
        W_GONE[d as usize].fetch_add(1, O::SeqCst);
    },
    |d| {
        W_WAKE[d as usize].fetch_add(1, O::SeqCst);
    },
    |d| {
        W_GONE[d as usize].fetch_add(1, O::SeqCst);
    },
);

fn mk_waker() -> (usize, Waker) {
    let id = NEXT_WAKER.fetch_add(1, O::SeqCst);
    assert!(id < MAX_WAKERS);
    W_BORN[id].fetch_add(1, O::SeqCst);
    // SAFETY: the vtable only uses the data pointer as an integer id.
    (id, unsafe { Waker::from_raw(RawWaker::new(id as *const (), &VTABLE)) })
}

fn reset_counters() {
    for i in 0..MAX_WAKERS {
        W_WAKE[i].store(0, O::SeqCst);
        W_BORN[i].store(0, O::SeqCst);
        W_GONE[i].store(0, O::SeqCst);
    }
    NEXT_WAKER.store(0, O::SeqCst);
}

// ------------------------------------------------------------------------------------------
// Shadow cells for `Awaiter::inner` (keyed by awaiter address)
// ------------------------------------------------------------------------------------------

struct Shadow(loom::cell::UnsafeCell<()>);
// SAFETY: loom threads run one at a time on this OS thread.
unsafe impl Send for Shadow {}
static SHADOWS: StdMutex<Option<HashMap<usize, Shadow>>> = StdMutex::new(None);

fn hook_inner_access(addr: usize, exclusive: bool) {
    let mut g = SHADOWS.lock().unwrap_or_else(|p| p.into_inner());
    let m = g.get_or_insert_with(HashMap::new);
    let s = m.entry(addr).or_insert_with(|| Shadow(loom::cell::UnsafeCell::new(())));
    if exclusive {
        s.0.with_mut(|_| ());
    } else {
        s.0.with(|_| ());
    }
}

fn hook_dropped(addr: usize) {
    let mut g = SHADOWS.lock().unwrap_or_else(|p| p.into_inner());
    if let Some(m) = g.as_mut() {
        if let Some(s) = m.remove(&addr) {
            // Dropping the awaiter is an exclusive access too.
            s.0.with_mut(|_| ());
        }
    }
}

// ------------------------------------------------------------------------------------------
// Programs
// ------------------------------------------------------------------------------------------

#[derive(Clone, Copy, Debug, PartialEq, Eq, PartialOrd, Ord, Hash)]
enum Op {
    Set,
    Reset,
    TryWait,
    /// poll waiter (0 = the pre-registered waiter W0, 1 = the thread's own waiter)
    Poll(u8),
    Drop(u8),
}

impl Op {
    fn enc(self) -> &'static str {
        match self {
            Op::Set => "S",
            Op::Reset => "R",
            Op::TryWait => "T",
            Op::Poll(1) => "p",
            Op::Drop(1) => "d",
            Op::Poll(_) => "P",
            Op::Drop(_) => "D",
        }
    }
    fn dec(c: char) -> Op {
        match c {
            'S' => Op::Set,
            'R' => Op::Reset,
            'T' => Op::TryWait,
            'p' => Op::Poll(1),
            'd' => Op::Drop(1),
            'P' => Op::Poll(0),
            'D' => Op::Drop(0),
            _ => panic!("bad op {c}"),
        }
    }
}

#[derive(Clone, Debug)]
struct Program {
    manual: bool,
    embedded: bool,
    /// main polls W0 once before spawning (it must return Pending or Ready per spec); W0 then
    /// belongs to the LAST thread.
    pre: bool,
    threads: Vec<Vec<Op>>,
}

impl Program {
    fn name(&self) -> String {
        format!(
            "{}:{}:{}:{}",
            if self.manual { "manual" } else { "auto" },
            if self.embedded { "embedded" } else { "boxed" },
            if self.pre { "pre" } else { "nopre" },
            self.threads.iter().map(|t| t.iter().map(|o| o.enc()).collect::<String>()).collect::<Vec<_>>().join(",")
        )
    }
    fn shape(&self) -> String {
        format!(
            "{}:{}:{}",
            if self.manual { "manual" } else { "auto" },
            if self.pre { "pre" } else { "nopre" },
            self.threads.iter().map(|t| t.iter().map(|o| o.enc()).collect::<String>()).collect::<Vec<_>>().join(",")
        )
    }
    fn parse(s: &str) -> Program {
        let parts: Vec<&str> = s.split(':').collect();
        Program {
            manual: parts[0] == "manual",
            embedded: parts[1] == "embedded",
            pre: parts[2] == "pre",
            threads: parts[3].split(',').map(|t| t.chars().map(Op::dec).collect()).collect(),
        }
    }
}

/// All legal op sequences of length 1..=max_len for one thread.
fn thread_programs(manual: bool, inherits_w0: bool, max_len: usize) -> Vec<Vec<Op>> {
    let mut alphabet = vec![Op::Set];
    if manual {
        alphabet.push(Op::Reset);
    }
    alphabet.extend([Op::TryWait, Op::Poll(1), Op::Drop(1)]);
    if inherits_w0 {
        alphabet.extend([Op::Poll(0), Op::Drop(0)]);
    }
    let mut out = Vec::new();
    let mut layer: Vec<Vec<Op>> = vec![vec![]];
    for _ in 0..max_len {
        let mut next = Vec::new();
        for p in &layer {
            for &o in &alphabet {
                let legal = match o {
                    // own waiter: drop only after a poll, nothing after its drop
                    Op::Drop(1) => p.contains(&Op::Poll(1)) && !p.contains(&Op::Drop(1)),
                    Op::Poll(1) => !p.contains(&Op::Drop(1)),
                    Op::Drop(0) => !p.contains(&Op::Drop(0)),
                    Op::Poll(0) => !p.contains(&Op::Drop(0)),
                    _ => true,
                };
                if legal {
                    let mut q = p.clone();
                    q.push(o);
                    next.push(q);
                }
            }
        }
        out.extend(next.iter().cloned());
        layer = next;
    }
    out
}

// ------------------------------------------------------------------------------------------
// Event abstraction
// ------------------------------------------------------------------------------------------

type Fut = Pin<Box<dyn Future<Output = ()> + Send>>;

#[derive(Clone)]
enum Ev {
    Auto(AutoResetEvent),
    Manual(ManualResetEvent),
    AutoE(events::EmbeddedAutoResetEventRef),
    ManualE(events::EmbeddedManualResetEventRef),
}

impl Ev {
    fn set(&self) {
        match self {
            Ev::Auto(e) => e.set(),
            Ev::Manual(e) => e.set(),
            Ev::AutoE(e) => e.set(),
            Ev::ManualE(e) => e.set(),
        }
    }
    fn reset(&self) {
        match self {
            Ev::Manual(e) => e.reset(),
            Ev::ManualE(e) => e.reset(),
            _ => unreachable!("reset on auto event"),
        }
    }
    fn try_wait(&self) -> bool {
        match self {
            Ev::Auto(e) => e.try_wait(),
            Ev::Manual(e) => e.try_wait(),
            Ev::AutoE(e) => e.try_wait(),
            Ev::ManualE(e) => e.try_wait(),
        }
    }
    fn wait(&self) -> Fut {
        match self {
            Ev::Auto(e) => Box::pin(e.wait()),
            Ev::Manual(e) => Box::pin(e.wait()),
            Ev::AutoE(e) => Box::pin(e.wait()),
            Ev::ManualE(e) => Box::pin(e.wait()),
        }
    }
}

// ------------------------------------------------------------------------------------------
// History + sequential specification + linearizability search
// ------------------------------------------------------------------------------------------

#[derive(Clone, Debug, PartialEq, Eq, PartialOrd, Ord)]
enum Call {
    Set,
    Reset,
    TryWait(bool),
    /// waiter id, ready?
    Poll(usize, bool),
    Drop(usize),
}

#[derive(Clone, Copy, PartialEq, Eq, Debug, PartialOrd, Ord)]
enum WSt {
    Idle,
    Registered,
    Released,
}

#[derive(Clone, PartialEq, Eq, PartialOrd, Ord, Debug)]
struct Spec {
    flag: bool,
    w: Vec<WSt>,
    /// diagnosis only: the remaining internal steps of a manual set() call, by thread:
    /// 0 = none, 1 = flag raised (next: release, or in the three-step model the snapshot of the
    /// registered waiters), 2 = snapshot taken (next: release of the snapshot)
    pending_release: Vec<u8>,
    /// three-step diagnosis only: the waiters captured by the snapshot step, by thread (bit mask)
    snap: Vec<u32>,
}

/// All spec states reachable by applying `call` (with its observed result) to `s`; empty = the
/// call's result is impossible here.
/// `steps`: 0 = every call is atomic (the specification); 2 / 3 = diagnosis models in which a
/// manual set() is [raise flag] [release the registered waiters] resp. [raise flag] [snapshot the
/// registered waiters (advance_generation)] [release the snapshot], other calls interleaving.
fn apply(manual: bool, steps: u8, thread: usize, s: &Spec, call: &Call) -> Vec<Spec> {
    let mut out = Vec::new();
    match *call {
        Call::Set => {
            if manual {
                let mut n = s.clone();
                n.flag = true;
                if steps != 0 {
                    n.pending_release[thread] = 1;
                } else {
                    for st in &mut n.w {
                        if *st == WSt::Registered {
                            *st = WSt::Released;
                        }
                    }
                }
                out.push(n);
            } else {
                let regs: Vec<usize> = (0..s.w.len()).filter(|&i| s.w[i] == WSt::Registered).collect();
                if s.flag {
                    // Idempotent while a signal is stored.
                    out.push(s.clone());
                } else if regs.is_empty() {
                    let mut n = s.clone();
                    n.flag = true;
                    out.push(n);
                } else {
                    for i in regs {
                        let mut n = s.clone();
                        n.w[i] = WSt::Released;
                        out.push(n);
                    }
                }
            }
        }
        Call::Reset => {
            let mut n = s.clone();
            n.flag = false;
            out.push(n);
        }
        Call::TryWait(b) => {
            if b == s.flag {
                let mut n = s.clone();
                if !manual {
                    n.flag = false;
                }
                out.push(n);
            }
        }
        Call::Poll(w, ready) => {
            if ready {
                if s.flag {
                    let mut n = s.clone();
                    if !manual {
                        n.flag = false;
                    }
                    out.push(n);
                }
                if s.w[w] == WSt::Released {
                    let mut n = s.clone();
                    n.w[w] = WSt::Idle;
                    out.push(n);
                }
            } else if !s.flag && s.w[w] != WSt::Released {
                let mut n = s.clone();
                n.w[w] = WSt::Registered;
                out.push(n);
            }
        }
        Call::Drop(w) => {
            let mut n = s.clone();
            let was = n.w[w];
            n.w[w] = WSt::Idle;
            if !manual && was == WSt::Released {
                // Cancelling a notified wait passes the signal on.
                let regs: Vec<usize> = (0..n.w.len()).filter(|&i| n.w[i] == WSt::Registered).collect();
                if regs.is_empty() {
                    let mut m = n.clone();
                    m.flag = true;
                    out.push(m);
                } else {
                    for i in regs {
                        let mut m = n.clone();
                        m.w[i] = WSt::Released;
                        out.push(m);
                    }
                }
            } else {
                out.push(n);
            }
        }
    }
    out
}

/// Runs the next internal step of thread `thread`'s pending manual set().
fn next_step(s: &Spec, thread: usize, steps: u8) -> Spec {
    let mut n = s.clone();
    match (n.pending_release[thread], steps) {
        (1, 3) => {
            n.snap[thread] = (0..n.w.len()).filter(|&i| n.w[i] == WSt::Registered).fold(0, |m, i| m | 1 << i);
            n.pending_release[thread] = 2;
        }
        (1, _) => {
            n.pending_release[thread] = 0;
            for st in &mut n.w {
                if *st == WSt::Registered {
                    *st = WSt::Released;
                }
            }
        }
        (2, _) => {
            n.pending_release[thread] = 0;
            for i in 0..n.w.len() {
                // a waiter that was re-polled in between keeps its generation; one that was
                // dropped is no longer in the set
                if n.snap[thread] >> i & 1 == 1 && n.w[i] == WSt::Registered {
                    n.w[i] = WSt::Released;
                }
            }
            n.snap[thread] = 0;
        }
        _ => {}
    }
    n
}

/// Runs all remaining internal steps of thread `thread`'s pending set() (set() returns).
fn release_phase(s: &Spec, thread: usize, steps: u8) -> Spec {
    let mut n = s.clone();
    while n.pending_release[thread] != 0 {
        n = next_step(&n, thread, steps);
    }
    n
}

/// Is there a sequential order of all calls that respects: pre < everything, per-thread program
/// order, everything < post, and is accepted by the spec?
fn linearizable(manual: bool, steps: u8, nwaiters: usize, pre: &[Call], threads: &[Vec<Call>], post: &[Call]) -> bool {
    let nth = threads.len() + 1; // last index = main (pre/post)
    let main = threads.len();
    let mut init = vec![Spec { flag: false, w: vec![WSt::Idle; nwaiters], pending_release: vec![0; nth], snap: vec![0; nth] }];
    for c in pre {
        let mut next = Vec::new();
        for s in &init {
            // A pending release phase of main's own earlier set must run before main's next call.
            let s = release_phase(s, main, steps);
            next.extend(apply(manual, steps, main, &s, c));
        }
        init = next;
    }
    let init: Vec<Spec> = init.into_iter().map(|s| release_phase(&s, main, steps)).collect();
    // DFS over (positions, spec state) with memoisation.
    let mut seen: BTreeSet<(Vec<usize>, Spec)> = BTreeSet::new();
    let mut stack: Vec<(Vec<usize>, Spec)> = init.into_iter().map(|s| (vec![0; threads.len()], s)).collect();
    while let Some((pos, s)) = stack.pop() {
        if !seen.insert((pos.clone(), s.clone())) {
            continue;
        }
        if pos.iter().enumerate().all(|(t, &p)| p == threads[t].len()) {
            // All thread calls placed; remaining release phases run now (set() has returned).
            let mut s = s;
            for t in 0..nth {
                s = release_phase(&s, t, steps);
            }
            let mut cur = vec![s];
            for c in post {
                let mut next = Vec::new();
                for s in &cur {
                    next.extend(apply(manual, 0, main, s, c));
                }
                cur = next;
                if cur.is_empty() {
                    break;
                }
            }
            if !cur.is_empty() {
                return true;
            }
            continue;
        }
        for t in 0..threads.len() {
            // Option A (diagnosis models only): run the next internal step of t's pending set().
            if s.pending_release[t] != 0 {
                stack.push((pos.clone(), next_step(&s, t, steps)));
            }
            if pos[t] < threads[t].len() {
                // All steps of t's earlier set must precede t's next call.
                if s.pending_release[t] != 0 {
                    continue;
                }
                for n in apply(manual, steps, t, &s, &threads[t][pos[t]]) {
                    let mut p = pos.clone();
                    p[t] += 1;
                    stack.push((p, n));
                }
            }
        }
    }
    false
}

// ------------------------------------------------------------------------------------------
// One loom execution
// ------------------------------------------------------------------------------------------

fn oracle(kind: &str, msg: String) -> ! {
    panic!("ORACLE[{kind}] {msg}");
}

/// Witness classes that are recorded instead of ending the exploration of the program: the
/// diagnosed non-atomicity of manual set(). Ending at the first such execution would hide any
/// OTHER violation in the remaining schedules of the same program.
static NOTED: StdMutex<BTreeMap<String, String>> = StdMutex::new(BTreeMap::new());

fn note(kind: &str, msg: String) {
    NOTED.lock().unwrap_or_else(|p| p.into_inner()).entry(kind.to_string()).or_insert(msg);
}

struct Waiter {
    id: usize,
    fut: Option<Fut>,
    done: bool,
    /// waker id of the latest poll that returned Pending
    last_pending: Option<usize>,
}

fn poll_waiter(w: &mut Waiter) -> Option<bool> {
    if w.done {
        return None; // completed futures are not polled again
    }
    let fut = w.fut.as_mut()?;
    let (wid, waker) = mk_waker();
    let mut cx = Context::from_waker(&waker);
    match fut.as_mut().poll(&mut cx) {
        Poll::Ready(()) => {
            w.done = true;
            w.last_pending = None;
            Some(true)
        }
        Poll::Pending => {
            w.last_pending = Some(wid);
            Some(false)
        }
    }
}

fn run_ops(ev: &Ev, ops: &[Op], w0: &mut Option<Waiter>, own: &mut Waiter) -> Vec<Call> {
    let mut h = Vec::new();
    let trace = std::env::var("C08_TRACE").is_ok();
    for &op in ops {
        if trace {
            eprintln!("  [w{}] begin {:?}", own.id, op);
        }
        match op {
            Op::Set => {
                ev.set();
                h.push(Call::Set);
            }
            Op::Reset => {
                ev.reset();
                h.push(Call::Reset);
            }
            Op::TryWait => h.push(Call::TryWait(ev.try_wait())),
            Op::Poll(k) => {
                let w = if k == 0 { w0.as_mut().expect("W0") } else { &mut *own };
                if w.fut.is_none() && !w.done && k == 1 {
                    w.fut = Some(ev.wait());
                }
                if let Some(r) = poll_waiter(w) {
                    h.push(Call::Poll(w.id, r));
                }
            }
            Op::Drop(k) => {
                let w = if k == 0 { w0.as_mut().expect("W0") } else { &mut *own };
                if w.fut.take().is_some() {
                    h.push(Call::Drop(w.id));
                }
                w.last_pending = None;
                w.done = true;
            }
        }
        if trace {
            eprintln!("  [w{}] end {:?} -> {:?}", own.id, op, h.last());
        }
    }
    h
}

fn execute(prog: &Program) -> String {
    if std::env::var("C08_TRACE").is_ok() {
        eprintln!("--- execution");
    }
    reset_counters();
    *SHADOWS.lock().unwrap_or_else(|p| p.into_inner()) = Some(HashMap::new());
    // Storage for the embedded variants must outlive every reference: leak-free via Box::pin kept
    // alive until the end of the execution.
    let auto_place = Box::pin(EmbeddedAutoResetEvent::new());
    let manual_place = Box::pin(EmbeddedManualResetEvent::new());
    let ev = match (prog.manual, prog.embedded) {
        (false, false) => Ev::Auto(AutoResetEvent::boxed()),
        (true, false) => Ev::Manual(ManualResetEvent::boxed()),
        // SAFETY: the places outlive all references and futures (dropped last, below).
        (false, true) => Ev::AutoE(unsafe { AutoResetEvent::embedded(auto_place.as_ref()) }),
        (true, true) => Ev::ManualE(unsafe { ManualResetEvent::embedded(manual_place.as_ref()) }),
    };
    let nthreads = prog.threads.len();
    let nwaiters = nthreads + 1;
    // Pre-spawn.
    let mut pre_hist = Vec::new();
    let mut w0 = None;
    if prog.pre {
        let mut w = Waiter { id: 0, fut: Some(ev.wait()), done: false, last_pending: None };
        let r = poll_waiter(&mut w).unwrap();
        pre_hist.push(Call::Poll(0, r));
        w0 = Some(w);
    }
    let mut handles = Vec::new();
    for (t, ops) in prog.threads.iter().enumerate() {
        let ev2 = ev.clone();
        let ops = ops.clone();
        let mut my_w0 = if t == nthreads - 1 { w0.take() } else { None };
        handles.push(loom::thread::spawn(move || {
            let mut own = Waiter { id: t + 1, fut: None, done: false, last_pending: None };
            let h = run_ops(&ev2, &ops, &mut my_w0, &mut own);
            (h, my_w0, own)
        }));
    }
    let mut thread_hists = Vec::new();
    let mut alive: Vec<Waiter> = Vec::new();
    for h in handles {
        let (hist, w0b, own) = h.join().unwrap();
        thread_hists.push(hist);
        if let Some(w) = w0b {
            alive.push(w);
        }
        alive.push(own);
    }
    alive.sort_by_key(|w| w.id);
    // Post-join probe: poll every waiter that is still pending, then read the event.
    let mut post = Vec::new();
    let mut must_wake: Vec<(usize, usize)> = Vec::new(); // (waiter, waker) obligations
    for w in &mut alive {
        if w.fut.is_some() && !w.done {
            let lp = w.last_pending;
            if let Some(r) = poll_waiter(w) {
                post.push(Call::Poll(w.id, r));
                if let (true, Some(wk)) = (r, lp) {
                    must_wake.push((w.id, wk));
                }
            }
        }
    }
    let final_flag = ev.try_wait();
    post.push(Call::TryWait(final_flag));
    // Drop what is left, then the event.
    for w in &mut alive {
        w.fut = None;
    }
    drop(alive);
    drop(ev);
    drop(auto_place);
    drop(manual_place);

    // Waker handle balance.
    for i in 0..NEXT_WAKER.load(O::SeqCst) {
        let (b, g) = (W_BORN[i].load(O::SeqCst), W_GONE[i].load(O::SeqCst));
        if b != g {
            oracle("waker-imbalance", format!("waker {i}: created+cloned={b} dropped+consumed={g}"));
        }
    }

    let summary = format!("pre={pre_hist:?} threads={thread_hists:?} post={post:?}");
    if !linearizable(prog.manual, 0, nwaiters, &pre_hist, &thread_hists, &post) {
        if prog.manual && linearizable(true, 2, nwaiters, &pre_hist, &thread_hists, &post) {
            note("manual-set-not-atomic", format!("history is not linearizable, but is explained by set() = [raise flag] ... [release registered waiters] as two separate steps: {summary}"));
        } else if prog.manual && linearizable(true, 3, nwaiters, &pre_hist, &thread_hists, &post) {
            note("manual-set-not-atomic:late-registrant-skipped", format!("history is not linearizable, not even with set() split in two, but is explained by set() = [raise flag] ... [advance_generation: choose the waiters registered so far] ... [release the chosen waiters] as three separate steps (a waiter that registers between the last two is skipped although it registered before set() returned and before an earlier-registered waiter was released): {summary}"));
        } else {
            oracle("nonlinearizable", format!("no sequential order of the calls explains: {summary}"));
        }
    }
    // Wake obligation: a waiter whose latest poll returned Pending(w) and which the probe found
    // released must have had w invoked. For the auto event a Ready probe means released (a stored
    // signal never coexists with a registered waiter); for the manual event only when the flag is
    // finally off (otherwise Ready may simply mean "event is set").
    for (wid, wk) in must_wake {
        // Manual event with the flag finally ON: the waiter's latest poll returned Pending, so the
        // flag was off then and some set() raised it afterwards; that set() returned before the
        // join and owed this registered waiter its release and the wake of its latest waker (the
        // clause "every wait registered when set returns completes, and its latest waker is
        // invoked") - also when the program contains a reset.
        let applies = true;
        let _ = final_flag;
        if applies && W_WAKE[wk].load(O::SeqCst) == 0 {
            oracle("wake-lost", format!("waiter {wid} was released but the waker of its latest Pending poll was never invoked: {summary}"));
        }
    }
    summary
}

// ------------------------------------------------------------------------------------------
// Child / parent
// ------------------------------------------------------------------------------------------

fn run_program_under_loom(prog: &Program) -> Result<(u64, BTreeSet<String>), String> {
    let iters = std::sync::Arc::new(AtomicUsize::new(0));
    let outcomes = std::sync::Arc::new(StdMutex::new(BTreeSet::new()));
    let (i2, o2, p2) = (iters.clone(), outcomes.clone(), prog.clone());
    let bound = match std::env::var("C08_BOUND").ok().as_deref() {
        Some("none") => None,
        // "3/2": bound 3 for two-thread programs with at most four operations, 2 for the rest
        Some("3/2") => Some(if prog.threads.len() == 2 && prog.threads.iter().map(Vec::len).sum::<usize>() <= 4 { 3 } else { 2 }),
        Some(n) => n.parse().ok(),
        None => Some(2),
    };
    let res = std::panic::catch_unwind(std::panic::AssertUnwindSafe(move || {
        let mut b = loom::model::Builder::new();
        b.preemption_bound = bound;
        b.max_branches = 500_000;
        b.check(move || {
            i2.fetch_add(1, O::SeqCst);
            let o = execute(&p2);
            o2.lock().unwrap().insert(o);
        });
    }));
    match res {
        Ok(()) => Ok((iters.load(O::SeqCst) as u64, outcomes.lock().unwrap().clone())),
        Err(p) => Err(format!("{} (after {} executions)", vcommon::panic_message(&*p), iters.load(O::SeqCst))),
    }
}

fn child(job: &str) {
    awaiter_set::verif_hook::install(awaiter_set::verif_hook::Hooks { inner_access: hook_inner_access, dropped: hook_dropped });
    let mut results = Vec::new();
    for name in job.split(';').filter(|s| !s.is_empty()) {
        let prog = Program::parse(name);
        NOTED.lock().unwrap_or_else(|p| p.into_inner()).clear();
        let r = run_program_under_loom(&prog);
        let noted: BTreeMap<String, String> = std::mem::take(&mut *NOTED.lock().unwrap_or_else(|p| p.into_inner()));
        match r {
            Ok((n, outs)) => {
                let sample = outs.iter().next().cloned().unwrap_or_default();
                results.push(json!({"prog": name, "iters": n, "outcomes": outs.len(), "sample": sample, "noted": noted}))
            }
            Err(msg) => {
                results.push(json!({"prog": name, "violation": msg, "noted": noted}));
                break;
            }
        }
    }
    child_result(&json!({ "results": results }));
}

fn classify(msg: &str) -> String {
    if let Some(rest) = msg.strip_prefix("ORACLE[") {
        return rest.split(']').next().unwrap_or("oracle").to_string();
    }
    if msg.contains("Causality violation") {
        return "causality".to_string();
    }
    if msg.to_lowercase().contains("deadlock") {
        return "deadlock".to_string();
    }
    "panic".to_string()
}

fn generate(thorough: bool) -> Vec<Program> {
    if let Ok(only) = std::env::var("C08_ONLY") {
        return only.split(';').map(Program::parse).collect();
    }
    let mut out = Vec::new();
    for manual in [false, true] {
        for embedded in [false, true] {
            // Family A: two threads, no pre-registered waiter; unordered pairs; at least one set.
            let la = if thorough { 3 } else { 2 };
            let progs = thread_programs(manual, false, la);
            for (i, a) in progs.iter().enumerate() {
                for b in &progs[i..] {
                    let total = a.len() + b.len();
                    if total > if thorough { 5 } else { 4 } {
                        continue;
                    }
                    if embedded && total > if thorough { 4 } else { 3 } {
                        continue; // embedded shares all code but the reference type
                    }
                    if !a.iter().chain(b).any(|o| *o == Op::Set) {
                        continue;
                    }
                    // something must be able to observe the set
                    if !a.iter().chain(b).any(|o| matches!(o, Op::TryWait | Op::Poll(_))) {
                        continue;
                    }
                    out.push(Program { manual, embedded, pre: false, threads: vec![a.clone(), b.clone()] });
                }
            }
            // Family B: W0 pre-registered by main, inherited by the last thread.
            let lb = if thorough { 3 } else { 2 };
            let t1s = thread_programs(manual, false, lb);
            let t2s = thread_programs(manual, true, lb);
            for a in &t1s {
                for b in &t2s {
                    let total = a.len() + b.len();
                    if total > if thorough { 4 } else { 3 } {
                        continue;
                    }
                    if embedded && (total > 3 || (!thorough && total > 2)) {
                        continue;
                    }
                    if !a.iter().chain(b).any(|o| *o == Op::Set) {
                        continue;
                    }
                    out.push(Program { manual, embedded, pre: true, threads: vec![a.clone(), b.clone()] });
                }
            }
            // Family C: three worker threads, one op each (+ pre-registered waiter), boxed only.
            if !embedded {
                let singles = thread_programs(manual, false, 1);
                let last = thread_programs(manual, true, if thorough { 2 } else { 1 });
                for (i, a) in singles.iter().enumerate() {
                    for b in &singles[i..] {
                        for c in &last {
                            if !a.iter().chain(b).chain(c).any(|o| *o == Op::Set) {
                                continue;
                            }
                            // Quick tier: three-thread programs cost thousands of executions
                            // each; keep those in which the inherited waiter W0 is polled or
                            // dropped by the third thread (the collisions this family exists for).
                            if !thorough && !c.iter().any(|o| matches!(o, Op::Poll(0) | Op::Drop(0))) {
                                continue;
                            }
                            out.push(Program { manual, embedded, pre: true, threads: vec![a.clone(), b.clone(), c.clone()] });
                        }
                    }
                }
            }
        }
    }
    if !thorough {
        // Witness programs of findings that only the thorough family reaches: kept in the quick
        // tier so that the finding (and its classification) is re-observed on every change.
        // The "SS,R?" programs: a second set() must still reach a waiter that re-registered (after a
        // reset) while the first set() was draining the pre-registered one with its lock released
        // around the wake - the flag/generation bookkeeping at the end of a drain (seeded C08d).
        for name in ["manual:boxed:pre:S,RpP", "manual:boxed:pre:SS,Rp", "manual:boxed:pre:SS,RP", "manual:embedded:pre:SS,Rp"] {
            if !out.iter().any(|p: &Program| p.name() == name) {
                out.push(Program::parse(name));
            }
        }
    }
    out
}

fn main() {
    if let Some(job) = child_job() {
        vcommon::quiet_panics_keep_first();
        child(&job);
        return;
    }
    let thorough = vcommon::is_thorough();
    let mut c = Check::new("C08", "model_checking");
    if let Ok(path) = std::env::var("VERIF_REPLAY") {
        let v: Value = vcommon::serde_json::from_str(&std::fs::read_to_string(&path).expect("replay file")).expect("json");
        let name = v["replay"]["program"].as_str().expect("replay.program").to_string();
        println!("replaying {name}");
        let r = vcommon::run_jobs(&[name], 1, Duration::from_secs(600));
        println!("{}\n{}", r[0].stdout, r[0].stderr);
        std::process::exit(0);
    }
    let bound = std::env::var("C08_BOUND").unwrap_or_else(|_| if thorough { "3/2".into() } else { "2".into() });
    let programs = generate(thorough);
    if std::env::var("C08_COUNT").is_ok() {
        let mut by: BTreeMap<String, usize> = BTreeMap::new();
        for p in &programs {
            *by.entry(format!("{}:{}:{}:{}thr", if p.manual { "manual" } else { "auto" }, if p.embedded { "emb" } else { "box" }, if p.pre { "pre" } else { "nopre" }, p.threads.len())).or_default() += 1;
        }
        println!("{} programs: {by:?}", programs.len());
        std::process::exit(0);
    }
    let names: Vec<String> = programs.iter().map(Program::name).collect();
    let jobs: Vec<String> = names.chunks(if thorough { 6 } else { 10 }).map(|c| c.join(";")).collect();
    let env = vec![("C08_BOUND".to_string(), bound.clone())];
    let timeout = Duration::from_secs(if thorough { 3600 } else { 100 });
    let results = vcommon::run_jobs_env(&jobs, vcommon::default_parallelism(), timeout, &env);
    let mut per_prog: BTreeMap<String, Value> = BTreeMap::new();
    let mut retry = Vec::new();
    for (job, r) in jobs.iter().zip(&results) {
        for d in r.result_json().and_then(|v| v["results"].as_array().cloned()).unwrap_or_default() {
            per_prog.insert(d["prog"].as_str().unwrap().to_string(), d.clone());
        }
        for n in job.split(';') {
            if !per_prog.contains_key(n) {
                retry.push(n.to_string());
            }
        }
    }
    if !retry.is_empty() {
        let rr = vcommon::run_jobs_env(&retry, vcommon::default_parallelism(), timeout, &env);
        for (n, r) in retry.iter().zip(&rr) {
            match r.result_json().and_then(|v| v["results"].as_array().and_then(|a| a.first().cloned())) {
                Some(d) => {
                    per_prog.insert(n.clone(), d);
                }
                None if r.timed_out => c.cap_hit(&format!("program {n} did not finish within {}s", timeout.as_secs())),
                None => {
                    let tail: String = r.stderr.lines().rev().take(6).collect::<Vec<_>>().join(" | ");
                    let msg = match vcommon::first_panic_of(&r.stderr) {
                        Some(first) => format!("{first} [the child then aborted: {tail}]"),
                        None => format!("child aborted: {tail}"),
                    };
                    per_prog.insert(n.clone(), json!({"prog": n, "violation": msg}));
                }
            }
        }
    }
    let mut total_iters = 0_u64;
    let mut multi = 0_u64;
    for (name, d) in &per_prog {
        let prog = Program::parse(name);
        c.evaluations += 1;
        // Recorded (not exploration-ending) witness classes of this program.
        for (kind, msg) in d.get("noted").and_then(Value::as_object).into_iter().flatten() {
            let msg = msg.as_str().unwrap_or("");
            c.violation(kind, &format!("{name}: {msg}"), json!({"program": name, "bound": bound, "message": msg}));
        }
        if let Some(msg) = d.get("violation").and_then(Value::as_str) {
            let kind = classify(msg);
            // The known non-atomicity of manual set() is one witness class regardless of the
            // program that exhibits it; everything else is keyed by its program shape.
            let key = if kind.starts_with("manual-set-not-atomic") { kind.clone() } else { format!("{kind}:{}", prog.shape()) };
            c.violation(&key, &format!("{name}: {msg}"), json!({"program": name, "bound": bound, "message": msg}));
            continue;
        }
        let iters = d["iters"].as_u64().unwrap_or(0);
        total_iters += iters;
        let outs = d["outcomes"].as_u64().unwrap_or(0);
        if outs > 1 {
            multi += 1;
        }
        c.distinct_hash(vcommon::hash_str(name));
        c.outcome_n(if outs > 1 { "program-with-several-histories" } else { "program-with-one-history" }, 1);
        if c.samples.len() < 5 && outs > 2 {
            c.sample(json!({"program": name, "executions": iters, "distinct_histories": outs, "one_history": d["sample"]}));
        }
    }
    if per_prog.len() != names.len() && c.caps_hit.is_empty() {
        c.engine_failure(&format!("{} of {} programs produced no result", names.len() - per_prog.len(), names.len()));
    }
    c.states = total_iters;
    c.transitions = total_iters;
    c.traces_validated = total_iters;
    c.rule = format!(
        "programs = kind{{auto,manual}} x storage{{boxed,embedded}} x (A: two threads, every legal op sequence over set/reset/try_wait/poll-own-waiter/drop-own-waiter, unordered pairs, total length <= {} | B: one waiter pre-registered by main and inherited by thread 2, total length <= {} | C: three threads, one op each (last thread <= {}), pre-registered waiter), at least one set; loom explores every interleaving with preemption bound {bound} ('3/2' = 3 for two-thread programs with at most four operations, 2 for five-operation and three-thread programs); every execution's history + post-join probe checked for linearizability by exhaustive search; distinct = program; states = loom executions",
        if thorough { 5 } else { 4 },
        if thorough { 4 } else { 3 },
        if thorough { 2 } else { 1 }
    );
    c.extra.insert("programs".into(), json!(names.len()));
    c.extra.insert("loom_executions".into(), json!(total_iters));
    c.extra.insert("preemption_bound".into(), json!(bound));
    c.extra.insert("programs_with_more_than_one_history".into(), json!(multi));
    c.assumptions.push("real time = happens-before created by the harness (program order, spawn, join); loom's C11 model (no load buffering, SeqCst approximated)".into());
    c.assumptions.push("release-build code (debug_assertions off): removes the address-dependent debug pick_one".into());
    if multi == 0 {
        c.engine_failure("no program showed more than one history: nothing collided (vacuous exploration)");
    }
    c.finish();
}

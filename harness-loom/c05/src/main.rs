//! C05 / C06 — thread-safe one-shot event under loom (real `events_once` code, loom atomics).
//!
//! One binary, two properties (VERIF_PROPERTY selects which evidence file is written and which
//! oracle classes are authoritative):
//!   C05: outcome / exactly-once payload / waker balance / wake obligation.
//!   C06: storage released exactly once and only after every access of the other endpoint
//!        (shadow cells keyed by event address, driven by the repo's cfg(folo_verif) hooks),
//!        nothing leaked (pool / lake length zero), no access after release.
//!
//! Enumerated space: storage strategy x sender program {send, drop} x receiver pre-join program
//! (every sequence up to length L over {poll(w1), poll(w2), is_ready, into_value, drop}) x
//! receiver post-join program (what the receiver does after the sender thread was joined), and for
//! each such program *every* interleaving and loom-modelled C11 outcome (DPOR, preemption bound
//! from the tier or unbounded).

use std::collections::{BTreeMap, BTreeSet, HashMap};
use std::future::Future;
use std::pin::Pin;
use std::sync::Mutex as StdMutex;
use std::sync::atomic::{AtomicUsize, Ordering as O};
use std::task::{Context, Poll, RawWaker, RawWakerVTable, Waker};
use std::time::Duration;

use events_once::{
    Disconnected, EmbeddedEvent, Event, EventLake, EventPool, IntoValueError, RawEventLake,
    RawEventPool, verif_hook,
};
use vcommon::serde_json::{Value, json};
use vcommon::{Check, child_job, child_result, run_jobs};

// ---------------------------------------------------------------------------------------------
// Observation state (std atomics / std mutex: observation only, no scheduling points).
// ---------------------------------------------------------------------------------------------

const NW: usize = 3; // waker ids: 1, 2 (receiver's), 0 = post-join waker
static W_CREATE: [AtomicUsize; NW] = [const { AtomicUsize::new(0) }; NW];
static W_CLONE: [AtomicUsize; NW] = [const { AtomicUsize::new(0) }; NW];
static W_DROP: [AtomicUsize; NW] = [const { AtomicUsize::new(0) }; NW];
static W_WAKE: [AtomicUsize; NW] = [const { AtomicUsize::new(0) }; NW];
static W_WAKE_VAL: [AtomicUsize; NW] = [const { AtomicUsize::new(0) }; NW];
static PAYLOAD_DROPS: AtomicUsize = AtomicUsize::new(0);
static PAYLOAD_CREATED: AtomicUsize = AtomicUsize::new(0);

fn reset_counters() {
    for i in 0..NW {
        W_CREATE[i].store(0, O::SeqCst);
        W_CLONE[i].store(0, O::SeqCst);
        W_DROP[i].store(0, O::SeqCst);
        W_WAKE[i].store(0, O::SeqCst);
        W_WAKE_VAL[i].store(0, O::SeqCst);
    }
    PAYLOAD_DROPS.store(0, O::SeqCst);
    PAYLOAD_CREATED.store(0, O::SeqCst);
}

// Counting waker: data pointer encodes the waker id.
static VTABLE: RawWakerVTable = RawWakerVTable::new(
    |d| {
        W_CLONE[d as usize].fetch_add(1, O::SeqCst);
        RawWaker::new(d, &VTABLE)
    },
    |d| {
        W_WAKE[d as usize].fetch_add(1, O::SeqCst);
        W_WAKE_VAL[d as usize].fetch_add(1, O::SeqCst);
    },
    |d| {
        W_WAKE[d as usize].fetch_add(1, O::SeqCst);
    },
    |d| {
        W_DROP[d as usize].fetch_add(1, O::SeqCst);
    },
);

fn mk_waker(id: usize) -> Waker {
    W_CREATE[id].fetch_add(1, O::SeqCst);
    // SAFETY: the vtable functions only use the data pointer as an integer id.
    unsafe { Waker::from_raw(RawWaker::new(id as *const (), &VTABLE)) }
}

const SENT_VALUE: u32 = 0xC0FFEE;

struct Payload(u32);
impl Payload {
    fn new() -> Self {
        PAYLOAD_CREATED.fetch_add(1, O::SeqCst);
        Payload(SENT_VALUE)
    }
}
impl Drop for Payload {
    fn drop(&mut self) {
        PAYLOAD_DROPS.fetch_add(1, O::SeqCst);
    }
}

// ---------------------------------------------------------------------------------------------
// Shadow cells keyed by event address (the repo hooks never dereference the address).
// ---------------------------------------------------------------------------------------------

struct Shadow {
    all: loom::cell::UnsafeCell<()>,
    awaiter: loom::cell::UnsafeCell<()>,
    value: loom::cell::UnsafeCell<()>,
    released: bool,
}
// SAFETY: only ever used from loom threads, which run one at a time on this OS thread.
unsafe impl Send for Shadow {}

#[derive(Default)]
struct Registry {
    live: HashMap<usize, Shadow>,
    created: usize,
    releases: usize,
    double_release: usize,
    access_after_release: usize,
}

static REG: StdMutex<Option<Registry>> = StdMutex::new(None);

fn with_reg<R>(f: impl FnOnce(&mut Registry) -> R) -> R {
    let mut g = REG.lock().unwrap_or_else(|p| p.into_inner());
    f(g.get_or_insert_with(Registry::default))
}

fn hook_created(addr: usize) {
    with_reg(|r| {
        r.created += 1;
        r.live.insert(
            addr,
            Shadow {
                all: loom::cell::UnsafeCell::new(()),
                awaiter: loom::cell::UnsafeCell::new(()),
                value: loom::cell::UnsafeCell::new(()),
                released: false,
            },
        );
    });
}

fn hook_touch(addr: usize) {
    with_reg(|r| match r.live.get(&addr) {
        Some(s) if !s.released => s.all.with(|_| ()),
        Some(_) => r.access_after_release += 1,
        None => {}
    });
}

fn hook_field(addr: usize, which: u8) {
    with_reg(|r| match r.live.get(&addr) {
        Some(s) if !s.released => {
            s.all.with(|_| ());
            if which == verif_hook::FIELD_AWAITER {
                s.awaiter.with_mut(|_| ());
            } else {
                s.value.with_mut(|_| ());
            }
        }
        Some(_) => r.access_after_release += 1,
        None => {}
    });
}

fn hook_release(addr: usize) {
    with_reg(|r| {
        r.releases += 1;
        match r.live.get_mut(&addr) {
            Some(s) if !s.released => {
                // Every earlier access (by any thread) must happen-before this point.
                s.all.with_mut(|_| ());
                s.awaiter.with_mut(|_| ());
                s.value.with_mut(|_| ());
                s.released = true;
            }
            Some(_) => r.double_release += 1,
            None => {}
        }
    });
}

// ---------------------------------------------------------------------------------------------
// Programs
// ---------------------------------------------------------------------------------------------

#[derive(Clone, Copy, Debug, PartialEq, Eq, PartialOrd, Ord)]
enum ROp {
    Poll1,
    Poll2,
    IsReady,
    IntoValue,
    Drop,
}

impl ROp {
    fn ch(self) -> char {
        match self {
            ROp::Poll1 => 'p',
            ROp::Poll2 => 'q',
            ROp::IsReady => 'r',
            ROp::IntoValue => 'v',
            ROp::Drop => 'd',
        }
    }
    fn from_ch(c: char) -> ROp {
        match c {
            'p' => ROp::Poll1,
            'q' => ROp::Poll2,
            'r' => ROp::IsReady,
            'v' => ROp::IntoValue,
            'd' => ROp::Drop,
            _ => panic!("bad op {c}"),
        }
    }
}

#[derive(Clone, Copy, Debug, PartialEq, Eq)]
enum SProg {
    Send,
    Drop,
}

const STORAGES: [&str; 6] = ["boxed", "embedded", "pooled", "rawpooled", "lake", "rawlake"];

#[derive(Clone, Debug)]
struct Program {
    storage: String,
    sender: SProg,
    pre: Vec<ROp>,
    post: Vec<ROp>,
}

impl Program {
    fn name(&self) -> String {
        format!(
            "{}:{}|{}+{}",
            self.storage,
            if self.sender == SProg::Send { "send" } else { "drop" },
            self.pre.iter().map(|o| o.ch()).collect::<String>(),
            self.post.iter().map(|o| o.ch()).collect::<String>()
        )
    }
    /// Storage-independent shape, used for violation keys.
    fn shape(&self) -> String {
        format!(
            "{}|{}+{}",
            if self.sender == SProg::Send { "send" } else { "drop" },
            self.pre.iter().map(|o| o.ch()).collect::<String>(),
            self.post.iter().map(|o| o.ch()).collect::<String>()
        )
    }
    fn parse(s: &str) -> Program {
        let (storage, rest) = s.split_once(':').unwrap();
        let (snd, rest) = rest.split_once('|').unwrap();
        let (pre, post) = rest.split_once('+').unwrap();
        Program {
            storage: storage.to_string(),
            sender: if snd == "send" { SProg::Send } else { SProg::Drop },
            pre: pre.chars().map(ROp::from_ch).collect(),
            post: post.chars().map(ROp::from_ch).collect(),
        }
    }
}

fn pre_programs(max_len: usize) -> Vec<Vec<ROp>> {
    let non_terminal = [ROp::Poll1, ROp::Poll2, ROp::IsReady, ROp::IntoValue];
    let mut out = Vec::new();
    let mut layer: Vec<Vec<ROp>> = vec![vec![]];
    for len in 0..=max_len {
        for p in &layer {
            out.push(p.clone());
            if len < max_len {
                let mut d = p.clone();
                d.push(ROp::Drop);
                out.push(d);
            }
        }
        if len == max_len {
            break;
        }
        let mut next = Vec::new();
        for p in &layer {
            for o in non_terminal {
                let mut q = p.clone();
                q.push(o);
                next.push(q);
            }
        }
        layer = next;
    }
    out
}

fn post_programs() -> Vec<Vec<ROp>> {
    vec![
        vec![ROp::Poll1],
        vec![ROp::IntoValue],
        vec![ROp::IsReady, ROp::Poll2],
        vec![ROp::Drop],
    ]
}

// ---------------------------------------------------------------------------------------------
// Endpoint abstraction over the storage strategies.
// ---------------------------------------------------------------------------------------------

trait Rx: Future<Output = Result<Payload, Disconnected>> + Unpin + Sized {
    fn ready(&self) -> bool;
    fn value(self) -> Result<Payload, IntoValueError<Self>>;
}
trait Tx: Send + 'static {
    fn send_it(self, v: Payload);
}
macro_rules! endpoints {
    ($s:ty, $r:ty) => {
        impl Rx for $r {
            fn ready(&self) -> bool {
                self.is_ready()
            }
            fn value(self) -> Result<Payload, IntoValueError<Self>> {
                self.into_value()
            }
        }
        impl Tx for $s {
            fn send_it(self, v: Payload) {
                self.send(v)
            }
        }
    };
}
endpoints!(events_once::BoxedSender<Payload>, events_once::BoxedReceiver<Payload>);
endpoints!(events_once::RawSender<Payload>, events_once::RawReceiver<Payload>);
endpoints!(events_once::PooledSender<Payload>, events_once::PooledReceiver<Payload>);
endpoints!(events_once::RawPooledSender<Payload>, events_once::RawPooledReceiver<Payload>);

#[derive(Debug, Clone, PartialEq, Eq, PartialOrd, Ord)]
enum Obs {
    Pending(usize),
    ReadyValue,
    ReadyDisc,
    IsReady(bool),
    IvPending,
    IvValue,
    IvDisc,
    Dropped,
}

struct RxState<R: Rx> {
    rx: Option<R>,
    /// waker id of the most recent poll that returned Pending (None once completed/dropped).
    last_pending: Option<usize>,
    saw_ready_true: bool,
    received: usize,
    log: Vec<Obs>,
}

fn oracle(kind: &str, msg: String) -> ! {
    panic!("ORACLE[{kind}] {msg}");
}

impl<R: Rx> RxState<R> {
    fn run(&mut self, ops: &[ROp], sender: SProg, after_join: bool) {
        for &op in ops {
            let Some(mut rx) = self.rx.take() else { return };
            match op {
                ROp::Poll1 | ROp::Poll2 => {
                    let id = if op == ROp::Poll1 { 1 } else { 2 };
                    let w = mk_waker(id);
                    let mut cx = Context::from_waker(&w);
                    match Pin::new(&mut rx).poll(&mut cx) {
                        Poll::Pending => {
                            if after_join {
                                oracle("outcome", "poll returned Pending although the sender's send/drop happened-before it (joined)".into());
                            }
                            if self.saw_ready_true {
                                oracle("outcome", "poll returned Pending after is_ready() returned true".into());
                            }
                            self.log.push(Obs::Pending(id));
                            self.last_pending = Some(id);
                            self.rx = Some(rx);
                        }
                        Poll::Ready(Ok(p)) => {
                            self.check_value(&p, sender);
                            std::mem::forget(p);
                            self.received += 1;
                            self.log.push(Obs::ReadyValue);
                            self.last_pending = None;
                            drop(rx);
                        }
                        Poll::Ready(Err(Disconnected)) => {
                            if sender == SProg::Send {
                                oracle("outcome", "receiver observed Disconnected although the sender sends".into());
                            }
                            self.log.push(Obs::ReadyDisc);
                            self.last_pending = None;
                            drop(rx);
                        }
                    }
                    drop(w);
                }
                ROp::IsReady => {
                    let b = rx.ready();
                    if after_join && !b {
                        oracle("outcome", "is_ready() false although the sender's send/drop happened-before it".into());
                    }
                    if self.saw_ready_true && !b {
                        oracle("outcome", "is_ready() went from true back to false".into());
                    }
                    self.saw_ready_true |= b;
                    self.log.push(Obs::IsReady(b));
                    self.rx = Some(rx);
                }
                ROp::IntoValue => match rx.value() {
                    Ok(p) => {
                        self.check_value(&p, sender);
                        std::mem::forget(p);
                        self.received += 1;
                        self.log.push(Obs::IvValue);
                        self.last_pending = None;
                    }
                    Err(IntoValueError::Pending(back)) => {
                        if after_join {
                            oracle("outcome", "into_value() Pending although the sender's send/drop happened-before it".into());
                        }
                        if self.saw_ready_true {
                            oracle("outcome", "into_value() Pending after is_ready() returned true".into());
                        }
                        self.log.push(Obs::IvPending);
                        self.rx = Some(back);
                    }
                    Err(IntoValueError::Disconnected) => {
                        if sender == SProg::Send {
                            oracle("outcome", "into_value() Disconnected although the sender sends".into());
                        }
                        self.log.push(Obs::IvDisc);
                        self.last_pending = None;
                    }
                    Err(_) => oracle("outcome", "unknown IntoValueError variant".into()),
                },
                ROp::Drop => {
                    drop(rx);
                    self.log.push(Obs::Dropped);
                    self.last_pending = None;
                }
            }
        }
    }

    fn check_value(&self, p: &Payload, sender: SProg) {
        if sender != SProg::Send {
            oracle("outcome", "receiver got a value although the sender never sends".into());
        }
        if p.0 != SENT_VALUE {
            oracle("payload", format!("received value {:#x} != sent {:#x}", p.0, SENT_VALUE));
        }
    }
}

/// One loom execution of the two-endpoint program; returns the observed outcome string.
fn run_pair<S: Tx, R: Rx>(s: S, r: R, prog: &Program) -> String {
    let sender = prog.sender;
    let th = loom::thread::spawn(move || match sender {
        SProg::Send => s.send_it(Payload::new()),
        SProg::Drop => drop(s),
    });
    let mut st = RxState { rx: Some(r), last_pending: None, saw_ready_true: false, received: 0, log: vec![] };
    st.run(&prog.pre, sender, false);
    th.join().unwrap();

    // Wake obligation, at quiescence: the receiver's most recent poll returned Pending with waker
    // w and the receiver is still waiting; the sender's send/drop has completed => w was woken.
    if let (Some(w), true) = (st.last_pending, st.rx.is_some()) {
        if W_WAKE[w].load(O::SeqCst) == 0 {
            oracle("wake-lost", format!("most recent poll returned Pending with waker {w}; sender completed; waker never woken"));
        }
    }
    let woken: Vec<usize> = (0..NW).map(|i| W_WAKE[i].load(O::SeqCst)).collect();
    st.run(&prog.post, sender, true);
    // Whatever is left of the receiver goes now.
    st.rx = None;

    // Payload accounting at quiescence.
    let created = PAYLOAD_CREATED.load(O::SeqCst);
    let drops = PAYLOAD_DROPS.load(O::SeqCst);
    let expect_created = usize::from(sender == SProg::Send);
    if created != expect_created {
        oracle("payload", format!("payload created {created} times"));
    }
    if drops + st.received != created {
        oracle(
            if drops + st.received > created { "payload-duplicated" } else { "payload-leaked" },
            format!("payload created={created} destroyed={drops} handed-to-receiver={}", st.received),
        );
    }
    // Waker balance: every handle that came into existence went away exactly once.
    for i in 0..NW {
        let born = W_CREATE[i].load(O::SeqCst) + W_CLONE[i].load(O::SeqCst);
        let gone = W_DROP[i].load(O::SeqCst) + W_WAKE_VAL[i].load(O::SeqCst);
        if born != gone {
            oracle("waker-imbalance", format!("waker {i}: created+cloned={born} dropped+consumed={gone}"));
        }
    }
    format!("{:?} woken={:?}", st.log, woken.iter().map(|&n| n.min(1)).collect::<Vec<_>>())
}

fn check_storage_accounting(expect_events: usize) {
    with_reg(|r| {
        if r.access_after_release > 0 {
            oracle("access-after-release", format!("{} hook accesses to an event after its release", r.access_after_release));
        }
        if r.double_release > 0 {
            oracle("double-release", format!("{} releases of already released storage", r.double_release));
        }
        if r.created != expect_events {
            oracle("engine", format!("created {} events, expected {expect_events}", r.created));
        }
        if r.releases != r.created {
            oracle(
                if r.releases < r.created { "storage-leaked" } else { "double-release" },
                format!("events created={} released={}", r.created, r.releases),
            );
        }
    });
}

fn model_body(prog: &Program) -> String {
    reset_counters();
    *REG.lock().unwrap_or_else(|p| p.into_inner()) = Some(Registry::default());
    let out = match prog.storage.as_str() {
        "boxed" => {
            let (s, r) = Event::<Payload>::boxed();
            run_pair(s, r, prog)
        }
        "embedded" => {
            let mut place = Box::pin(EmbeddedEvent::<Payload>::new());
            // SAFETY: the storage outlives both endpoints (run_pair joins the sender and drops the
            // receiver before returning) and is not moved.
            let (s, r) = unsafe { Event::placed(place.as_mut()) };
            let o = run_pair(s, r, prog);
            drop(place);
            o
        }
        "pooled" => {
            let pool = EventPool::<Payload>::new();
            let (s, r) = pool.rent();
            let o = run_pair(s, r, prog);
            if pool.len() != 0 || !pool.is_empty() {
                oracle("pool-not-empty", format!("pool.len()={} after both endpoints are gone", pool.len()));
            }
            o
        }
        "rawpooled" => {
            let pool = Box::pin(RawEventPool::<Payload>::new());
            // SAFETY: the pool outlives both endpoints and is pinned.
            let (s, r) = unsafe { pool.as_ref().rent() };
            let o = run_pair(s, r, prog);
            if pool.len() != 0 || !pool.is_empty() {
                oracle("pool-not-empty", format!("raw pool.len()={} after both endpoints are gone", pool.len()));
            }
            o
        }
        "lake" => {
            let lake = EventLake::new();
            let (s, r) = lake.rent::<Payload>();
            let o = run_pair(s, r, prog);
            if lake.len() != 0 || !lake.is_empty() {
                oracle("pool-not-empty", format!("lake.len()={} after both endpoints are gone", lake.len()));
            }
            o
        }
        "rawlake" => {
            let lake = Box::pin(RawEventLake::new());
            // SAFETY: the lake outlives both endpoints.
            let (s, r) = unsafe { lake.rent::<Payload>() };
            let o = run_pair(s, r, prog);
            if lake.len() != 0 || !lake.is_empty() {
                oracle("pool-not-empty", format!("raw lake.len()={} after both endpoints are gone", lake.len()));
            }
            o
        }
        "traffic" => return traffic_body(prog),
        other => panic!("unknown storage {other}"),
    };
    check_storage_accounting(1);
    out
}

/// Rental/return traffic: two worker threads each own the sender of an event rented from one
/// shared pool; the main thread owns both receivers. `pre` is applied to both receivers in turn.
fn traffic_body(prog: &Program) -> String {
    let pool = EventPool::<Payload>::new();
    let (s1, r1) = pool.rent();
    let (s2, r2) = pool.rent();
    let sender = prog.sender;
    let p2 = pool.clone();
    let t1 = loom::thread::spawn(move || match sender {
        SProg::Send => s1.send_it(Payload::new()),
        SProg::Drop => drop(s1),
    });
    let t2 = loom::thread::spawn(move || {
        // The second worker also rents and returns a third event while the others are in flight.
        let (s3, r3) = p2.rent();
        drop(r3);
        drop(s3);
        drop(s2);
    });
    let mut a = RxState { rx: Some(r1), last_pending: None, saw_ready_true: false, received: 0, log: vec![] };
    let mut b = RxState { rx: Some(r2), last_pending: None, saw_ready_true: false, received: 0, log: vec![] };
    a.run(&prog.pre, sender, false);
    b.run(&prog.pre, SProg::Drop, false);
    t1.join().unwrap();
    t2.join().unwrap();
    a.run(&prog.post, sender, true);
    b.run(&prog.post, SProg::Drop, true);
    a.rx = None;
    b.rx = None;
    if pool.len() != 0 {
        oracle("pool-not-empty", format!("pool.len()={} after all endpoints are gone", pool.len()));
    }
    let created = PAYLOAD_CREATED.load(O::SeqCst);
    let drops = PAYLOAD_DROPS.load(O::SeqCst);
    if drops + a.received + b.received != created {
        oracle("payload-leaked", format!("created={created} destroyed={drops} received={}", a.received + b.received));
    }
    check_storage_accounting(3);
    format!("{:?}/{:?}", a.log, b.log)
}

// ---------------------------------------------------------------------------------------------
// Child: run a batch of programs, each under loom; Parent: fan out, aggregate.
// ---------------------------------------------------------------------------------------------

fn preemption_bound() -> Option<usize> {
    match std::env::var("C05_BOUND").ok().as_deref() {
        Some("none") => None,
        Some(n) => n.parse().ok(),
        None => Some(3),
    }
}

fn run_program_under_loom(prog: &Program) -> Result<(u64, BTreeSet<String>), String> {
    let iters = std::sync::Arc::new(AtomicUsize::new(0));
    let outcomes = std::sync::Arc::new(StdMutex::new(BTreeSet::new()));
    let (i2, o2, p2) = (iters.clone(), outcomes.clone(), prog.clone());
    let res = std::panic::catch_unwind(std::panic::AssertUnwindSafe(move || {
        let mut b = loom::model::Builder::new();
        b.preemption_bound = preemption_bound();
        b.max_branches = 200_000;
        b.check(move || {
            i2.fetch_add(1, O::SeqCst);
            let o = model_body(&p2);
            o2.lock().unwrap().insert(o);
        });
    }));
    match res {
        Ok(()) => Ok((iters.load(O::SeqCst) as u64, outcomes.lock().unwrap().clone())),
        Err(p) => Err(format!("{} (after {} executions)", vcommon::panic_message(&*p), iters.load(O::SeqCst))),
    }
}

fn child(job: &str) {
    verif_hook::install(verif_hook::Hooks {
        created: hook_created,
        touch: hook_touch,
        field: hook_field,
        release: hook_release,
    });
    let mut results = Vec::new();
    for name in job.split(';').filter(|s| !s.is_empty()) {
        let prog = Program::parse(name);
        match run_program_under_loom(&prog) {
            Ok((n, outs)) => results.push(json!({"prog": name, "iters": n, "outcomes": outs.into_iter().collect::<Vec<_>>() })),
            Err(msg) => {
                results.push(json!({"prog": name, "violation": msg}));
                // State after a failed loom model is not trusted: stop this batch here; the
                // parent re-runs the remaining programs of the batch individually.
                break;
            }
        }
    }
    child_result(&json!({ "results": results }));
}

fn classify(msg: &str) -> String {
    if let Some(rest) = msg.strip_prefix("ORACLE[") {
        return rest.split(']').next().unwrap_or("oracle").to_string();
    }
    if msg.contains("Causality violation") {
        return "causality".to_string();
    }
    if msg.contains("deadlock") || msg.contains("Deadlock") {
        return "deadlock".to_string();
    }
    if msg.contains("unreachable") {
        return "unreachable-state".to_string();
    }
    "panic".to_string()
}

/// Which property a violation kind belongs to.
fn kind_property(kind: &str) -> &'static str {
    match kind {
        "causality" | "double-release" | "storage-leaked" | "access-after-release" | "pool-not-empty" => "C06",
        _ => "C05",
    }
}

fn main() {
    if let Some(job) = child_job() {
        vcommon::quiet_panics_keep_first();
        child(&job);
        return;
    }
    let property = std::env::var("VERIF_PROPERTY").unwrap_or_else(|_| "C05".into());
    let thorough = vcommon::is_thorough();
    let mut c = Check::new(&property, "model_checking");

    if let Ok(path) = std::env::var("VERIF_REPLAY") {
        let v: Value = vcommon::serde_json::from_str(&std::fs::read_to_string(&path).expect("replay file")).expect("json");
        let name = v["replay"]["program"].as_str().expect("replay.program").to_string();
        println!("replaying {name}");
        let r = run_jobs(&[name], 1, Duration::from_secs(600));
        println!("{}\n{}", r[0].stdout, r[0].stderr);
        std::process::exit(0);
    }

    // Program space per tier.
    let (pre_len, storages, bound): (usize, Vec<&str>, &str) = if thorough {
        (4, STORAGES.to_vec(), "none")
    } else {
        (3, vec!["boxed", "embedded", "pooled"], "3")
    };
    let bound = std::env::var("C05_BOUND").unwrap_or_else(|_| bound.to_string());
    let mut programs = Vec::new();
    for st in &storages {
        // Pool/lake variants share the event protocol code; they get the shorter programs.
        let len = if thorough {
            if *st == "boxed" || *st == "embedded" { pre_len } else { pre_len - 1 }
        } else {
            match *st {
                "boxed" => 3,
                "embedded" => 2,
                _ => 1,
            }
        };
        for pre in pre_programs(len) {
            let ends_dropped = pre.last() == Some(&ROp::Drop);
            for post in post_programs() {
                // Quick tier: the length-3 boxed programs get two of the four post-join programs.
                if !thorough && pre.len() == 3 && !(post == vec![ROp::Poll1] || post == vec![ROp::Drop]) {
                    continue;
                }
                if ends_dropped && post != vec![ROp::Drop] {
                    continue; // receiver already gone: one post program is enough
                }
                for sender in [SProg::Send, SProg::Drop] {
                    programs.push(Program { storage: st.to_string(), sender, pre: pre.clone(), post: post.clone() });
                }
            }
        }
    }
    // Traffic programs (C06): short receiver programs over a shared pool.
    for pre in pre_programs(if thorough { 2 } else { 1 }) {
        for sender in [SProg::Send, SProg::Drop] {
            programs.push(Program { storage: "traffic".into(), sender, pre: pre.clone(), post: vec![ROp::Drop] });
        }
    }

    let names: Vec<String> = programs.iter().map(Program::name).collect();
    let batch = if thorough { 8 } else { 12 };
    let jobs: Vec<String> = names.chunks(batch).map(|c| c.join(";")).collect();
    let env = vec![("C05_BOUND".to_string(), bound.clone())];
    let timeout = Duration::from_secs(if thorough { 1800 } else { 120 });
    let results = vcommon::run_jobs_env(&jobs, vcommon::default_parallelism(), timeout, &env);

    // Collect; re-run unfinished programs of broken batches individually.
    let mut per_prog: BTreeMap<String, Value> = BTreeMap::new();
    let mut retry: Vec<String> = Vec::new();
    for (job, r) in jobs.iter().zip(&results) {
        let done: Vec<Value> = r.result_json().and_then(|v| v["results"].as_array().cloned()).unwrap_or_default();
        for d in &done {
            per_prog.insert(d["prog"].as_str().unwrap().to_string(), d.clone());
        }
        for n in job.split(';') {
            if !per_prog.contains_key(n) {
                retry.push(n.to_string());
            }
        }
    }
    if !retry.is_empty() {
        let rr = vcommon::run_jobs_env(&retry, vcommon::default_parallelism(), timeout, &env);
        for (n, r) in retry.iter().zip(&rr) {
            match r.result_json().and_then(|v| v["results"].as_array().and_then(|a| a.first().cloned())) {
                Some(d) => {
                    per_prog.insert(n.clone(), d);
                }
                None => {
                    if r.timed_out {
                        c.cap_hit(&format!("program {n} did not finish within {}s", timeout.as_secs()));
                    } else {
                        // The child died without a result (abort inside loom): treat as a violation
                        // witness with the stderr tail, it is deterministic and replayable.
                        let tail: String = r.stderr.lines().rev().take(6).collect::<Vec<_>>().join(" | ");
                        // The first panic is the verdict; the abort is only how the process ended.
                        let msg = match vcommon::first_panic_of(&r.stderr) {
                            Some(first) => format!("{first} [the child then aborted: {tail}]"),
                            None => format!("child aborted: {tail}"),
                        };
                        per_prog.insert(n.clone(), json!({"prog": n, "violation": msg}));
                    }
                }
            }
        }
    }

    let mut total_iters = 0_u64;
    let mut multi_outcome_programs = 0_u64;
    for (name, d) in &per_prog {
        let prog = Program::parse(name);
        c.evaluations += 1;
        if let Some(msg) = d.get("violation").and_then(Value::as_str) {
            let kind = classify(msg);
            let owner = kind_property(&kind);
            // Each binary run reports the violations that belong to its property; a violation of
            // the sibling property is still reported (as that property's check will, too) when the
            // kind is engine-level.
            if owner == property || kind == "panic" || kind == "unreachable-state" || kind == "deadlock" {
                c.violation(
                    &format!("{kind}:{}", prog.shape()),
                    &format!("{name}: {msg}"),
                    json!({"program": name, "bound": bound, "message": msg}),
                );
            } else {
                c.outcome(&format!("violation-owned-by-{owner}"));
            }
            continue;
        }
        let iters = d["iters"].as_u64().unwrap_or(0);
        total_iters += iters;
        let outs = d["outcomes"].as_array().map(|a| a.len()).unwrap_or(0);
        if outs > 1 {
            multi_outcome_programs += 1;
        }
        c.distinct_hash(vcommon::hash_str(name));
        for o in d["outcomes"].as_array().into_iter().flatten() {
            c.outcome(o.as_str().unwrap_or("?"));
        }
        if c.samples.len() < 5 && outs > 1 {
            c.sample(json!({"program": name, "executions": iters, "outcomes": d["outcomes"]}));
        }
    }
    if per_prog.len() != names.len() && c.caps_hit.is_empty() {
        c.engine_failure(&format!("{} of {} programs produced no result", names.len() - per_prog.len(), names.len()));
    }
    c.states = total_iters;
    c.transitions = total_iters; // lower bound: each execution is at least one scheduling decision sequence
    c.traces_validated = total_iters;
    c.rule = format!(
        "every program = storage x sender{{send,drop}} x receiver pre-join op sequence (thorough: <= {pre_len} ops over poll(w1),poll(w2),is_ready,into_value,drop, pooled/lake one shorter; quick: boxed <= 3 [length-3 with 2 of the 4 post programs], embedded <= 2, pooled <= 1) x post-join op sequence (4) on storages {storages:?} plus pool traffic programs; each program explored by loom over ALL interleavings and loom-modelled C11 reads with preemption bound {bound}; distinct = program; non-trivial = ran at least one execution to completion; states = loom executions"
    );
    c.extra.insert("programs".into(), json!(names.len()));
    c.extra.insert("loom_executions".into(), json!(total_iters));
    c.extra.insert("preemption_bound".into(), json!(bound));
    c.extra.insert("programs_with_more_than_one_outcome".into(), json!(multi_outcome_programs));
    c.assumptions.push("loom models C11 release/acquire/relaxed and fences; SeqCst is approximated; load-buffering/out-of-thin-air outcomes are not produced".into());
    c.assumptions.push("third-party `plurality` (pool slot storage) runs unmodelled: its internals are atomic blocks for loom".into());
    c.assumptions.push("release-build protocol (debug_assertions off): the debug-only backtrace Mutex would add happens-before edges the shipped code does not have".into());
    if multi_outcome_programs == 0 {
        c.engine_failure("no program showed more than one outcome: nothing collided (vacuous exploration)");
    }
    c.finish();
}

//! C15 (schedule half): the real `future_deque` waker path (`waker_meta.rs` + `future_deque_core.rs`)
//! compiled with loom's AtomicUsize / Arc / Mutex, explored by loom over every interleaving and
//! every loom-modelled C11 outcome within the preemption bound.
//!
//! One program =
//!   * main thread "A": creates a `FutureDeque`, pushes one scripted future, polls once with parent
//!     P1 (the future captures a clone of its waker and returns Pending), hands that waker to B,
//!     then runs its own concurrent part `a=` (a sequence of polls with parent P1 / P2);
//!   * thread "B": a sequence `b=` of <= 3 operations over {c: clone, r: wake_by_ref, w: wake (by
//!     value), d: drop} on the wakers it holds (starting with the one handed out), remaining
//!     wakers dropped at the end of the thread;
//!   * `end=`: keep (A joins B, polls once more, checks the wake obligations, drops the deque) |
//!     dropA (A drops the deque while B is still running) | dropC (A moves the deque to a third
//!     thread C which drops it while B is still running);
//!   * `fut=`: never (always Pending) | second (returns Ready at its second poll).
//!
//! Oracle per execution (panics `ORACLE[key] ...`, loom reports the schedule):
//!   * no lost wake: every wake issued by B happens-after the future returned Pending (the waker
//!     is handed over through the spawn edge). For every such wake, unless the future completed,
//!     a poll of the future must START after the wake STARTED, by the end of A's final poll
//!     (`lost_wake:not_repolled`); and if at the join no such poll has started yet, the parent
//!     waker of A's most recent poll must have been invoked after that poll began
//!     (`lost_wake:parent_not_woken`) — otherwise A's task would sleep forever.
//!   * no spurious poll: the future is polled at most once per wake issued (+ the first poll).
//!   * metadata: live (pool length above the baseline) whenever B holds a waker
//!     (`meta_freed_while_clone_live`), back to the baseline when everything is gone
//!     (`meta_not_freed_exactly_once`), and — through the cfg(folo_verif_loom) shadow cell in
//!     `WakerMeta` — the release is ordered after every other access (loom "Causality violation").
//!   * future and output dropped exactly once.
//!
//! Observation state lives in std atomics: loom threads run one at a time on one OS thread, so
//! these are plain sequentially consistent memory and add no edges to loom's model.

use std::collections::BTreeMap;
use std::future::Future;
use std::pin::Pin;
use std::sync::Mutex as StdMutex;
use std::sync::atomic::{AtomicBool, AtomicUsize, Ordering as O};
use std::task::{Context, Poll, RawWaker, RawWakerVTable, Waker};
use std::time::Duration;

use future_deque::FutureDeque;
use vcommon::serde_json::{Value, json};

static POLLS_STARTED: AtomicUsize = AtomicUsize::new(0);
static COMPLETED: AtomicBool = AtomicBool::new(false);
static FUT_DROPS: AtomicUsize = AtomicUsize::new(0);
static OUT_DROPS: AtomicUsize = AtomicUsize::new(0);
static PW: [AtomicUsize; 2] = [const { AtomicUsize::new(0) }; 2];
static CAPTURED: StdMutex<Option<Waker>> = StdMutex::new(None);
static WAKE_BEGINS: StdMutex<Vec<usize>> = StdMutex::new(Vec::new());

fn reset() {
    POLLS_STARTED.store(0, O::SeqCst);
    COMPLETED.store(false, O::SeqCst);
    FUT_DROPS.store(0, O::SeqCst);
    OUT_DROPS.store(0, O::SeqCst);
    PW[0].store(0, O::SeqCst);
    PW[1].store(0, O::SeqCst);
    *CAPTURED.lock().unwrap_or_else(|p| p.into_inner()) = None;
    WAKE_BEGINS.lock().unwrap_or_else(|p| p.into_inner()).clear();
}

// Parent wakers: the data pointer is the parent index; no allocation, no loom objects.
// Cloning a waker is user code that takes time: it is a scheduling point, so that loom also runs
// the other threads while the deque is in the middle of cloning its parent waker (e.g. while it
// holds its parent-waker lock).
static PVT: RawWakerVTable = RawWakerVTable::new(
    |d| {
        loom::thread::yield_now();
        gate_in_clone();
        RawWaker::new(d, &PVT)
    },
    |d| {
        PW[d as usize].fetch_add(1, O::SeqCst);
    },
    |d| {
        PW[d as usize].fetch_add(1, O::SeqCst);
    },
    |_| {},
);

/// "Poll while a waker clone is in progress" gadget (programs with `gate=1`): loom's DPOR does not
/// by itself place A's poll between B's lock and unlock of the parent-waker mutex (the critical
/// section contains no conflicting access), so a `try_lock`-failure path would never be seen. In
/// gate mode B's FIRST parent clone inside a wake announces itself and waits until A is about to
/// poll; A waits for that announcement (or for B's end) before its concurrent poll. Both orders of
/// "A's lock attempt" and "B's unlock" are then explored by loom through the flag accesses.
struct Gate {
    b_in_clone: loom::sync::atomic::AtomicBool,
    a_polling: loom::sync::atomic::AtomicBool,
    b_done: loom::sync::atomic::AtomicBool,
    used: AtomicBool,
}
static GATE: StdMutex<Option<std::sync::Arc<Gate>>> = StdMutex::new(None);
static IN_B_WAKE: AtomicBool = AtomicBool::new(false);

fn gate() -> Option<std::sync::Arc<Gate>> {
    GATE.lock().unwrap_or_else(|p| p.into_inner()).clone()
}

fn gate_in_clone() {
    if !IN_B_WAKE.load(O::SeqCst) {
        return;
    }
    let Some(g) = gate() else { return };
    if g.used.swap(true, O::SeqCst) {
        return;
    }
    g.b_in_clone.store(true, O::SeqCst);
    while !g.a_polling.load(O::SeqCst) {
        loom::thread::yield_now();
    }
}

fn parent(i: usize) -> Waker {
    // SAFETY: the vtable functions use the data pointer as an integer only.
    unsafe { Waker::from_raw(RawWaker::new(i as *const (), &PVT)) }
}

struct Out;
impl Drop for Out {
    fn drop(&mut self) {
        OUT_DROPS.fetch_add(1, O::SeqCst);
    }
}

struct Fut {
    complete_at: usize,
}
impl Drop for Fut {
    fn drop(&mut self) {
        FUT_DROPS.fetch_add(1, O::SeqCst);
    }
}
impl Future for Fut {
    type Output = Out;
    fn poll(self: Pin<&mut Self>, cx: &mut Context<'_>) -> Poll<Out> {
        let n = POLLS_STARTED.fetch_add(1, O::SeqCst) + 1;
        if n == 1 {
            let w = cx.waker().clone();
            *CAPTURED.lock().unwrap() = Some(w);
        }
        if self.complete_at != 0 && n >= self.complete_at {
            COMPLETED.store(true, O::SeqCst);
            return Poll::Ready(Out);
        }
        Poll::Pending
    }
}

fn oracle(cond: bool, key: &str, detail: impl FnOnce() -> String) {
    if !cond {
        panic!("ORACLE[{key}] {}", detail());
    }
}

#[derive(Clone, Copy, PartialEq, Eq, Debug)]
enum End {
    Keep,
    DropA,
    DropC,
}

#[derive(Clone, Debug)]
struct Program {
    b: Vec<char>,
    a: Vec<usize>,
    end: End,
    complete_at: usize,
    /// see `Gate`
    gate: bool,
    /// `Some(kind)`: the run-on-wake scenario (`inline_body`) instead of the A/B program;
    /// kind = r (wake_by_ref) | w (wake by value) | x (clone, wake the clone, drop the original)
    inline: Option<char>,
}

impl Program {
    fn name(&self) -> String {
        if let Some(k) = self.inline {
            return format!("inline={k}");
        }
        format!(
            "b={}:a={}:end={}:fut={}:gate={}",
            self.b.iter().collect::<String>(),
            self.a.iter().map(|p| char::from(b'1' + *p as u8)).collect::<String>(),
            match self.end {
                End::Keep => "keep",
                End::DropA => "dropA",
                End::DropC => "dropC",
            },
            if self.complete_at == 0 { "never" } else { "second" },
            u8::from(self.gate)
        )
    }

    fn parse(s: &str) -> Program {
        let mut p = Program { b: vec![], a: vec![], end: End::Keep, complete_at: 0, gate: false, inline: None };
        for part in s.split(':') {
            let (k, v) = part.split_once('=').expect("k=v");
            match k {
                "b" => p.b = v.chars().collect(),
                "a" => p.a = v.chars().map(|c| c as usize - '1' as usize).collect(),
                "end" => {
                    p.end = match v {
                        "keep" => End::Keep,
                        "dropA" => End::DropA,
                        _ => End::DropC,
                    }
                }
                "fut" => p.complete_at = if v == "second" { 2 } else { 0 },
                "gate" => p.gate = v == "1",
                "inline" => p.inline = v.chars().next(),
                _ => panic!("bad program part {part}"),
            }
        }
        p
    }
}

fn pool_live(base: u64) -> i64 {
    FutureDeque::<Out>::verif_waker_meta_pool_len() as i64 - base as i64
}

// ---- run-on-wake scenario ----------------------------------------------------------------------
// The deque's task is driven by an executor whose waker polls the task immediately ("run on
// wake"), unless the task is already being polled further up the stack. A wake of a contained
// future's waker, issued outside any poll, must then lead to that future being polled again from
// inside the wake call. If the deque calls the task waker while it holds its parent-waker lock,
// the inline poll blocks on that lock: loom reports the deadlock.
static INLINE_DQ: StdMutex<Option<std::sync::Arc<StdMutex<FutureDeque<Out>>>>> = StdMutex::new(None);

static IVT: RawWakerVTable = RawWakerVTable::new(|d| RawWaker::new(d, &IVT), |_| inline_run(), |_| inline_run(), |_| {});

fn inline_parent() -> Waker {
    // SAFETY: the vtable functions do not use the data pointer.
    unsafe { Waker::from_raw(RawWaker::new(std::ptr::null(), &IVT)) }
}

fn inline_run() {
    let Some(dq) = INLINE_DQ.lock().unwrap_or_else(|p| p.into_inner()).clone() else { return };
    // already being polled further up the stack: that poll loop will come round again
    let Ok(mut g) = dq.try_lock() else { return };
    let w = inline_parent();
    let _ = g.poll(&Context::from_waker(&w));
}

fn inline_body(kind: char) -> String {
    reset();
    let base = FutureDeque::<Out>::verif_waker_meta_pool_len();
    let dq = std::sync::Arc::new(StdMutex::new(FutureDeque::<Out>::new()));
    *INLINE_DQ.lock().unwrap_or_else(|p| p.into_inner()) = Some(dq.clone());
    {
        let mut g = dq.lock().unwrap();
        g.push_back(Fut { complete_at: 2 });
        let w = inline_parent();
        let first = g.poll(&Context::from_waker(&w));
        oracle(first.is_pending(), "harness", || "first poll not pending".into());
    }
    let handed = CAPTURED.lock().unwrap().take().expect("future captured its waker");
    match kind {
        'r' => {
            handed.wake_by_ref();
            drop(handed);
        }
        'w' => handed.wake(),
        _ => {
            let c = handed.clone();
            c.wake();
            drop(handed);
        }
    }
    oracle(POLLS_STARTED.load(O::SeqCst) == 2 && COMPLETED.load(O::SeqCst), "inline_parent:not_repolled", || {
        format!("the run-on-wake task waker was {} but the future was polled {} time(s)", if kind == 'r' { "woken by reference" } else { "woken" }, POLLS_STARTED.load(O::SeqCst))
    });
    *INLINE_DQ.lock().unwrap_or_else(|p| p.into_inner()) = None;
    drop(dq);
    oracle(FUT_DROPS.load(O::SeqCst) == 1 && OUT_DROPS.load(O::SeqCst) == 1, "drop_count", || {
        format!("future dropped {} time(s), output {} time(s)", FUT_DROPS.load(O::SeqCst), OUT_DROPS.load(O::SeqCst))
    });
    oracle(pool_live(base) == 0, "meta_not_freed_exactly_once", || format!("waker-metadata pool is {} above its baseline after everything was dropped", pool_live(base)));
    "inline: repolled from inside the wake".into()
}

fn model_body(p: &Program) -> String {
    if let Some(k) = p.inline {
        return inline_body(k);
    }
    reset();
    let base = FutureDeque::<Out>::verif_waker_meta_pool_len();
    let mut dq = FutureDeque::<Out>::new();
    dq.push_back(Fut { complete_at: p.complete_at });
    let w1 = parent(0);
    let first = dq.poll(&Context::from_waker(&w1));
    oracle(first.is_pending(), "harness", || "first poll not pending".into());
    let handed = CAPTURED.lock().unwrap().take().expect("future captured its waker");

    IN_B_WAKE.store(false, O::SeqCst);
    *GATE.lock().unwrap_or_else(|p| p.into_inner()) = if p.gate {
        Some(std::sync::Arc::new(Gate {
            b_in_clone: loom::sync::atomic::AtomicBool::new(false),
            a_polling: loom::sync::atomic::AtomicBool::new(false),
            b_done: loom::sync::atomic::AtomicBool::new(false),
            used: AtomicBool::new(false),
        }))
    } else {
        None
    };
    let b_ops = p.b.clone();
    let n_wakes = b_ops.iter().filter(|c| matches!(c, 'r' | 'w')).count();
    let tb = loom::thread::spawn(move || {
        let mut held = vec![handed];
        for op in b_ops {
            // B holds at least one waker here, so the metadata it points at must be live.
            oracle(pool_live(base) >= 1, "meta_freed_while_clone_live", || {
                format!("B holds {} waker(s) but the metadata pool is back at its baseline before op '{op}'", held.len())
            });
            match op {
                'c' => {
                    let c = held.last().expect("valid program").clone();
                    held.push(c);
                }
                'r' => {
                    WAKE_BEGINS.lock().unwrap().push(POLLS_STARTED.load(O::SeqCst));
                    IN_B_WAKE.store(true, O::SeqCst);
                    held.last().expect("valid program").wake_by_ref();
                    IN_B_WAKE.store(false, O::SeqCst);
                }
                'w' => {
                    WAKE_BEGINS.lock().unwrap().push(POLLS_STARTED.load(O::SeqCst));
                    IN_B_WAKE.store(true, O::SeqCst);
                    held.pop().expect("valid program").wake();
                    IN_B_WAKE.store(false, O::SeqCst);
                }
                'd' => drop(held.pop().expect("valid program")),
                _ => unreachable!(),
            }
        }
        drop(held);
        if let Some(g) = gate() {
            g.b_done.store(true, O::SeqCst);
        }
    });

    // A's concurrent part.
    let mut last_parent = 0_usize;
    let mut wakes_at_last_begin = 0_usize;
    for (i, &pa) in p.a.iter().enumerate() {
        if i == 0 {
            if let Some(g) = gate() {
                while !g.b_in_clone.load(O::SeqCst) && !g.b_done.load(O::SeqCst) {
                    loom::thread::yield_now();
                }
                g.a_polling.store(true, O::SeqCst);
            }
        }
        last_parent = pa;
        wakes_at_last_begin = PW[pa].load(O::SeqCst);
        let w = parent(pa);
        let _ = dq.poll(&Context::from_waker(&w));
    }

    let mut class = String::new();
    match p.end {
        End::Keep => {
            tb.join().expect("B");
            let completed = COMPLETED.load(O::SeqCst);
            let started = POLLS_STARTED.load(O::SeqCst);
            let begins = WAKE_BEGINS.lock().unwrap().clone();
            let unconsumed = begins.iter().any(|&s| started <= s);
            if !completed && unconsumed {
                oracle(PW[last_parent].load(O::SeqCst) > wakes_at_last_begin, "lost_wake:parent_not_woken", || {
                    format!(
                        "a wake issued by B has not been followed by a poll of the future, and parent P{} (A's most recent) was not invoked since that poll began; parent wakes = [{}, {}]",
                        last_parent + 1,
                        PW[0].load(O::SeqCst),
                        PW[1].load(O::SeqCst)
                    )
                });
            }
            class.push_str(if completed {
                "completed_in_concurrent_poll"
            } else if begins.is_empty() {
                "no_wake"
            } else if unconsumed {
                "wake_pending_at_join_parent_woken"
            } else {
                "wake_consumed_by_concurrent_poll"
            });
            let w = parent(last_parent);
            let _ = dq.poll(&Context::from_waker(&w));
            let started2 = POLLS_STARTED.load(O::SeqCst);
            if !completed {
                for &s in &begins {
                    oracle(started2 > s, "lost_wake:not_repolled", || {
                        format!("a wake by B began when the future had been polled {s} time(s); after A's final poll it has still been polled only {started2} time(s)")
                    });
                }
            }
            oracle(started2 <= 1 + n_wakes, "spurious_poll", || {
                format!("future polled {started2} times with only {n_wakes} wake(s) issued")
            });
            drop(dq);
        }
        End::DropA => {
            drop(dq);
            tb.join().expect("B");
            class.push_str("dropped_by_A");
        }
        End::DropC => {
            let tc = loom::thread::spawn(move || drop(dq));
            tb.join().expect("B");
            tc.join().expect("C");
            class.push_str("dropped_by_C");
        }
    }
    oracle(pool_live(base) == 0, "meta_not_freed_exactly_once", || {
        format!("deque and all wakers are gone but the metadata pool is at baseline{:+}", pool_live(base))
    });
    oracle(FUT_DROPS.load(O::SeqCst) == 1, "future_drop_count", || format!("future dropped {} times", FUT_DROPS.load(O::SeqCst)));
    let want_out = usize::from(COMPLETED.load(O::SeqCst));
    oracle(OUT_DROPS.load(O::SeqCst) == want_out, "output_drop_count", || {
        format!("output dropped {} times, expected {want_out}", OUT_DROPS.load(O::SeqCst))
    });
    class
}

fn preemption_bound() -> Option<usize> {
    match std::env::var("LOOM_MAX_PREEMPTIONS").ok().as_deref() {
        Some("none") => None,
        Some(n) => n.parse().ok(),
        None => Some(if vcommon::is_thorough() { 3 } else { 2 }),
    }
}

fn run_program(prog: &Program) -> Result<(u64, BTreeMap<String, u64>), String> {
    let iters = std::sync::Arc::new(AtomicUsize::new(0));
    let outcomes = std::sync::Arc::new(StdMutex::new(BTreeMap::new()));
    let (i2, o2, p2) = (iters.clone(), outcomes.clone(), prog.clone());
    let res = std::panic::catch_unwind(std::panic::AssertUnwindSafe(move || {
        let mut b = loom::model::Builder::new();
        b.preemption_bound = preemption_bound();
        b.max_branches = 100_000;
        b.check(move || {
            i2.fetch_add(1, O::SeqCst);
            let o = model_body(&p2);
            *o2.lock().unwrap().entry(o).or_insert(0) += 1;
        });
    }));
    match res {
        Ok(()) => Ok((iters.load(O::SeqCst) as u64, outcomes.lock().unwrap().clone())),
        Err(p) => Err(format!("{} (after {} executions)", vcommon::panic_message(&*p), iters.load(O::SeqCst))),
    }
}

fn classify(msg: &str) -> String {
    if let Some(rest) = msg.strip_prefix("ORACLE[") {
        return rest.split(']').next().unwrap_or("oracle").to_string();
    }
    if msg.contains("Causality violation") || msg.contains("causality") {
        return "metadata_release_not_ordered_after_access".to_string();
    }
    if msg.contains("eadlock") {
        return "deadlock".to_string();
    }
    if msg.contains("leaked") || msg.contains("Leaked") {
        return "loom_object_leaked".to_string();
    }
    if msg.contains("maximum number of branches") || msg.contains("max_branches") {
        return "ENGINE:max_branches".to_string();
    }
    "panic".to_string()
}

/// Every sequence of length 1..=max over {c, r, w, d} that never operates on an empty hand.
fn b_sequences(max: usize) -> Vec<Vec<char>> {
    let mut out = Vec::new();
    fn rec(cur: &mut Vec<char>, held: usize, max: usize, out: &mut Vec<Vec<char>>) {
        if !cur.is_empty() {
            out.push(cur.clone());
        }
        if cur.len() == max || held == 0 {
            return;
        }
        for (c, delta) in [('c', 1_i32), ('r', 0), ('w', -1), ('d', -1)] {
            cur.push(c);
            rec(cur, (held as i32 + delta) as usize, max, out);
            cur.pop();
        }
    }
    rec(&mut Vec::new(), 1, max, &mut out);
    out
}

fn programs() -> Vec<Program> {
    let thorough = vcommon::is_thorough();
    let mut v = Vec::new();
    let a_progs: Vec<Vec<usize>> =
        if thorough { vec![vec![1], vec![0], vec![], vec![1, 0], vec![1, 1]] } else { vec![vec![1], vec![0], vec![]] };
    for b in b_sequences(3) {
        for a in &a_progs {
            for end in [End::Keep, End::DropA, End::DropC] {
                for complete_at in [0, 2] {
                    // A future that completes at its second poll needs a poll to matter.
                    if complete_at == 2 && a.is_empty() && end != End::Keep {
                        continue;
                    }
                    // Two concurrent polls only with the shorter B programs (state space).
                    if a.len() == 2 && b.len() > 2 {
                        continue;
                    }
                    v.push(Program { b: b.clone(), a: a.clone(), end, complete_at, gate: false, inline: None });
                    // Gate variant: one concurrent poll placed while B's first wake is cloning the
                    // parent waker (only meaningful if B wakes and the deque is kept).
                    if a.len() == 1 && end == End::Keep && complete_at == 0 && b.iter().any(|c| matches!(c, 'r' | 'w')) {
                        v.push(Program { b: b.clone(), a: a.clone(), end, complete_at, gate: true, inline: None });
                    }
                }
            }
        }
    }
    // Run-on-wake executors: the task waker polls the task (the deque) right away.
    for k in ['r', 'w', 'x'] {
        v.push(Program { b: vec![], a: vec![], end: End::Keep, complete_at: 2, gate: false, inline: Some(k) });
    }
    v
}

/// Child-side panic hook: print only the FIRST panic message (the verdict) on one stderr line.
/// What follows a failed oracle / loom check (unwinding through wakers that point at released
/// metadata) can turn into a non-unwinding panic and abort the process; the parent then still
/// finds the verdict in stderr.
fn first_panic_hook() {
    static SEEN: AtomicBool = AtomicBool::new(false);
    std::panic::set_hook(Box::new(|info| {
        if !SEEN.swap(true, O::SeqCst) {
            let p = info.payload();
            let msg = p.downcast_ref::<&str>().map(|s| (*s).to_string()).or_else(|| p.downcast_ref::<String>().cloned()).unwrap_or_default();
            eprintln!("FIRST-PANIC: {}", msg.lines().next().unwrap_or(""));
        }
    }));
}

fn main() {
    vcommon::quiet_panics();
    if let Some(job) = vcommon::child_job() {
        first_panic_hook();
        let prog = Program::parse(&job);
        let r = match run_program(&prog) {
            Ok((n, outs)) => json!({"prog": job, "iters": n, "outcomes": outs}),
            Err(msg) => json!({"prog": job, "violation": msg, "class": classify(&msg)}),
        };
        vcommon::child_result(&r);
        return;
    }
    if let Ok(one) = std::env::var("C15L_PROGRAM") {
        // Developer entry point: run one program in-process and print what loom says.
        let prog = Program::parse(&one);
        match run_program(&prog) {
            Ok((n, outs)) => println!("ok: {n} executions, outcomes {outs:?}"),
            Err(m) => println!("FAILED: {m}"),
        }
        return;
    }
    let progs = programs();
    let jobs: Vec<String> = progs.iter().map(Program::name).collect();
    let bound = preemption_bound();
    let timeout = Duration::from_secs(if vcommon::is_thorough() { 1500 } else { 200 });
    let results = vcommon::run_jobs(&jobs, vcommon::default_parallelism(), timeout);

    let mut executions = 0_u64;
    let mut completed_programs = 0_u64;
    let mut outcomes: BTreeMap<String, u64> = BTreeMap::new();
    let mut violations: Vec<Value> = Vec::new();
    let mut caps: Vec<String> = Vec::new();
    let mut engine: Vec<String> = Vec::new();
    for r in &results {
        if r.timed_out {
            caps.push(format!("program {} timed out after {timeout:?}", r.job));
            continue;
        }
        let aborted_after_verdict;
        let v = match r.result_json() {
            Some(v) => v,
            None => {
                // A failed oracle / loom check can end in an abort (a second panic while unwinding
                // through wakers whose metadata is gone). The first panic is the verdict; a death
                // without any first panic (segfault, ...) is an engine failure.
                match r.stderr.lines().find_map(|l| l.strip_prefix("FIRST-PANIC: ")) {
                    Some(msg) => {
                        aborted_after_verdict = format!("{msg} (the process then aborted)");
                        json!({"violation": aborted_after_verdict, "class": classify(msg)})
                    }
                    None => {
                        let tail = r.stderr.lines().rev().take(3).collect::<Vec<_>>().join(" | ");
                        engine.push(format!("program {} died without a result (exit {:?}): {tail}", r.job, r.exit_code));
                        continue;
                    }
                }
            }
        };
        if let Some(msg) = v["violation"].as_str() {
            let class = v["class"].as_str().unwrap_or("panic").to_string();
            if let Some(what) = class.strip_prefix("ENGINE:") {
                caps.push(format!("program {}: {what}", r.job));
                continue;
            }
            let prog = Program::parse(&r.job);
            let shape = format!(
                "end={}",
                match prog.end {
                    End::Keep => "keep",
                    End::DropA => "dropA",
                    End::DropC => "dropC",
                }
            );
            violations.push(json!({
                "key": format!("loom:{class}:{shape}"),
                "summary": format!("[loom program {}] {}", r.job, msg.lines().next().unwrap_or("")),
                "replay": {"loom_program": r.job, "preemption_bound": bound, "message": msg},
            }));
            continue;
        }
        completed_programs += 1;
        executions += v["iters"].as_u64().unwrap_or(0);
        if let Some(o) = v["outcomes"].as_object() {
            for (k, n) in o {
                *outcomes.entry(k.clone()).or_insert(0) += n.as_u64().unwrap_or(0);
            }
        }
    }
    let out = json!({
        "programs": jobs.len(),
        "programs_completed": completed_programs,
        "executions": executions,
        "preemption_bound": bound,
        "outcomes": outcomes,
        "violations": violations,
        "caps": caps,
        "engine": engine,
        "sample_programs": jobs.iter().step_by((jobs.len() / 5).max(1)).take(5).collect::<Vec<_>>(),
    });
    println!("@@C15L {}", vcommon::serde_json::to_string(&out).unwrap());
    println!(
        "c15l: {} programs, {} loom executions, bound {:?}, {} violations, {} caps, {} engine failures",
        jobs.len(),
        executions,
        bound,
        violations.len(),
        caps.len(),
        engine.len()
    );
    for v in &violations {
        println!("  {} :: {}", v["key"].as_str().unwrap_or(""), v["summary"].as_str().unwrap_or(""));
    }
    std::process::exit(if !engine.is_empty() { 2 } else if !violations.is_empty() { 1 } else { 0 });
}

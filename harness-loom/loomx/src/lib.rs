//! `loomx` = loom 0.7.2 with one modelling correction for the integer atomics.
//!
//! loom keeps the modification order of an atomic as a *partial* order (version vectors). A plain
//! `store` by thread A that has not observed an earlier read-modify-write by thread B is left
//! unordered with B's RMW-store, and a later RMW by a third thread may then read *either* as "the
//! newest" value. C11 forbids one of the two: an RMW always reads the value immediately preceding
//! its own write in the (total) modification order ([atomics.order] p10), so once B's RMW has read
//! the value written before A's store, A's store is necessarily later and is the only newest value.
//! With native loom this produced executions of `AutoResetEvent` in which a signal stored by
//! `state.store(SIGNALED)` was "lost" to an RMW that had already completed — an outcome no C11
//! implementation can produce, i.e. a false alarm.
//!
//! Correction: plain stores on the wrapped integer atomics are performed as `swap` (an RMW store,
//! result discarded). An RMW store always reads the newest value and is ordered after it, which is
//! exactly the constraint C11 puts on a plain store relative to RMWs that already executed.
//! What this gives up (under-approximation, never a false alarm): two concurrent *plain* stores
//! are no longer unordered with each other, a storing thread "sees" the value it overwrites, and
//! the store continues release sequences like an RMW would.
//!
//! Everything else is re-exported from loom unchanged.

pub use loom::{cell, hint, model, thread};

pub mod sync {
    pub use loom::sync::{Arc, Condvar, Mutex, MutexGuard, Notify, RwLock, RwLockReadGuard, RwLockWriteGuard, mpsc};

    pub mod atomic {
        pub use loom::sync::atomic::{AtomicBool, AtomicPtr, Ordering, fence};

        macro_rules! wrapped_int {
            ($name:ident, $t:ty) => {
                #[derive(Debug)]
                pub struct $name(loom::sync::atomic::$name);

                impl $name {
                    #[track_caller]
                    pub fn new(v: $t) -> Self {
                        Self(loom::sync::atomic::$name::new(v))
                    }
                    #[track_caller]
                    pub fn with_mut<R>(&mut self, f: impl FnOnce(&mut $t) -> R) -> R {
                        self.0.with_mut(f)
                    }
                    #[track_caller]
                    pub fn into_inner(self) -> $t {
                        self.0.into_inner()
                    }
                    #[track_caller]
                    pub fn load(&self, order: Ordering) -> $t {
                        self.0.load(order)
                    }
                    /// Plain store, modelled as an RMW store (see the crate documentation).
                    #[track_caller]
                    pub fn store(&self, val: $t, order: Ordering) {
                        let order = match order {
                            Ordering::Release | Ordering::Relaxed | Ordering::SeqCst => order,
                            // `store` does not accept Acquire/AcqRel in std either.
                            other => panic!("invalid store ordering {other:?}"),
                        };
                        let _ = self.0.swap(val, order);
                    }
                    #[track_caller]
                    pub fn swap(&self, val: $t, order: Ordering) -> $t {
                        self.0.swap(val, order)
                    }
                    #[track_caller]
                    pub fn compare_exchange(&self, current: $t, new: $t, success: Ordering, failure: Ordering) -> Result<$t, $t> {
                        self.0.compare_exchange(current, new, success, failure)
                    }
                    #[track_caller]
                    pub fn compare_exchange_weak(&self, current: $t, new: $t, success: Ordering, failure: Ordering) -> Result<$t, $t> {
                        self.0.compare_exchange_weak(current, new, success, failure)
                    }
                    #[track_caller]
                    pub fn fetch_add(&self, val: $t, order: Ordering) -> $t {
                        self.0.fetch_add(val, order)
                    }
                    #[track_caller]
                    pub fn fetch_sub(&self, val: $t, order: Ordering) -> $t {
                        self.0.fetch_sub(val, order)
                    }
                    #[track_caller]
                    pub fn fetch_and(&self, val: $t, order: Ordering) -> $t {
                        self.0.fetch_and(val, order)
                    }
                    #[track_caller]
                    pub fn fetch_or(&self, val: $t, order: Ordering) -> $t {
                        self.0.fetch_or(val, order)
                    }
                    #[track_caller]
                    pub fn fetch_xor(&self, val: $t, order: Ordering) -> $t {
                        self.0.fetch_xor(val, order)
                    }
                    #[track_caller]
                    pub fn fetch_max(&self, val: $t, order: Ordering) -> $t {
                        self.0.fetch_max(val, order)
                    }
                    #[track_caller]
                    pub fn fetch_min(&self, val: $t, order: Ordering) -> $t {
                        self.0.fetch_min(val, order)
                    }
                    #[track_caller]
                    pub fn fetch_update<F>(&self, set_order: Ordering, fetch_order: Ordering, f: F) -> Result<$t, $t>
                    where
                        F: FnMut($t) -> Option<$t>,
                    {
                        self.0.fetch_update(set_order, fetch_order, f)
                    }
                }

                impl Default for $name {
                    fn default() -> Self {
                        Self::new(Default::default())
                    }
                }
            };
        }

        wrapped_int!(AtomicU8, u8);
        wrapped_int!(AtomicU16, u16);
        wrapped_int!(AtomicU32, u32);
        wrapped_int!(AtomicU64, u64);
        wrapped_int!(AtomicUsize, usize);
        wrapped_int!(AtomicIsize, isize);
    }
}

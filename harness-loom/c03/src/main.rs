//! C03 stage 1 — thread-safe pools (real `infinity_pool` code, loom `Arc`/`Mutex`) under every
//! schedule of a mechanically generated program family.
//!
//! Initial state built by the main thread inside the loom model: slab capacity 2; object S (id 0)
//! inserted and turned into a shared handle; one unique object U_t (id 1+t) per worker thread.
//! Every worker starts with {a clone of the pool, a clone of the SAME shared handle to S, its own
//! unique handle U_t}. The main thread then drops its own pool value and its own handle to S, so
//! every reference count (object S, pool storage) can reach zero on any worker, concurrently with
//! the other workers' operations. S and U_0 share slab 0, U_1 (and U_2) live in slab 1, inserts by
//! workers open new slabs, `shrink_to_fit` removes empty ones.
//!
//! A program is one operation sequence per worker over the alphabet
//!   Ins  insert a new object (unique handle, kept)          Cl  clone the newest shared handle held
//!   Dr   drop the newest shared handle held                 Sh  newest unique handle -> into_shared
//!   Inn  newest unique handle -> into_inner (remove)        DrU drop the newest unique handle
//!   It   with_iter: count + inspect every object (BlindPool: len/is_empty/capacity_for)
//!   Res  reserve(1)      Shr  shrink_to_fit      DP  drop this worker's pool value
//! All sequences whose preconditions hold (a handle / the pool value is still held) are generated;
//! workers start in identical states, so programs are identified by the multiset of sequences.
//!
//! Oracle on every execution (observation through std atomics: no scheduling points added):
//!  * destructor of every object ran exactly once, and never while a handle to it had not begun
//!    to drop (`LIVE[id]` is decremented immediately before a handle is dropped/consumed);
//!  * the canary is a `loom::cell::UnsafeCell`: read through every handle held after every
//!    operation, written in the destructor — loom itself reports a destructor that is not ordered
//!    after every access ("causality violation");
//!  * iteration sees between (objects certainly present) and (objects possibly present) objects,
//!    all with intact canaries and distinct ids;
//!  * after join: `len()` == number of live objects (whenever a pool value survived), then with
//!    every pool value gone every surviving handle still dereferences to an intact object, and
//!    dropping the handles one at a time destroys each object exactly at its last handle;
//!  * loom: no deadlock, no leaked `Arc` (pool storage released), no panic in the pool code.

use std::collections::{BTreeMap, BTreeSet};
use std::ops::Deref;
use std::sync::Mutex as StdMutex;
use std::sync::atomic::{AtomicUsize, Ordering as O};
use std::time::Duration;

use infinity_pool::{
    BlindPool, BlindPooled, BlindPooledMut, OpaquePool, PinnedPool, Pooled, PooledMut,
};
use vcommon::serde_json::{Value, json};
use vcommon::{Check, child_job, child_result};

// ---------------------------------------------------------------------------------------------
// Observation tables (std atomics / std mutex: observation only).
// ---------------------------------------------------------------------------------------------

const MAXOBJ: usize = 16;
const CANARY: u64 = 0xC0FF_EE00_5EED_0000;

static DROPS: [AtomicUsize; MAXOBJ] = [const { AtomicUsize::new(0) }; MAXOBJ];
/// Handles to the object that have not begun to drop (incremented before a handle comes into
/// existence, decremented immediately before it is dropped or consumed by into_inner).
static LIVE: [AtomicUsize; MAXOBJ] = [const { AtomicUsize::new(0) }; MAXOBJ];
static INS_STARTED: [AtomicUsize; MAXOBJ] = [const { AtomicUsize::new(0) }; MAXOBJ];
static INS_DONE: [AtomicUsize; MAXOBJ] = [const { AtomicUsize::new(0) }; MAXOBJ];
static FAIL: StdMutex<Option<String>> = StdMutex::new(None);
static LOG: StdMutex<Vec<String>> = StdMutex::new(Vec::new());

fn reset_tables() {
    for i in 0..MAXOBJ {
        DROPS[i].store(0, O::SeqCst);
        LIVE[i].store(0, O::SeqCst);
        INS_STARTED[i].store(0, O::SeqCst);
        INS_DONE[i].store(0, O::SeqCst);
    }
    *FAIL.lock().unwrap_or_else(|p| p.into_inner()) = None;
    LOG.lock().unwrap_or_else(|p| p.into_inner()).clear();
}

fn record_fail(kind: &str, msg: String) {
    let mut f = FAIL.lock().unwrap_or_else(|p| p.into_inner());
    if f.is_none() {
        *f = Some(format!("ORACLE[{kind}] {msg}"));
    }
}

fn check_fail() {
    let f = FAIL.lock().unwrap_or_else(|p| p.into_inner()).take();
    if let Some(m) = f {
        panic!("{m}");
    }
}

fn oracle(kind: &str, msg: String) -> ! {
    panic!("ORACLE[{kind}] {msg}");
}

fn log(s: String) {
    LOG.lock().unwrap_or_else(|p| p.into_inner()).push(s);
}

fn loom_tid() -> String {
    let s = format!("{:?}", loom::thread::current().id());
    s.chars().filter(char::is_ascii_digit).collect()
}

/// The pooled object. 24 bytes, `Unpin`, `Send`; `Sync` because the only shared access is a read
/// of the loom cell (writes happen in the destructor, which loom orders against the reads).
struct Payload {
    id: usize,
    canary: loom::cell::UnsafeCell<u64>,
}

// SAFETY: see the type documentation — shared access only reads.
unsafe impl Sync for Payload {}

impl Payload {
    fn new(id: usize) -> Self {
        Self { id, canary: loom::cell::UnsafeCell::new(CANARY ^ id as u64) }
    }

    /// Reads the canary through the loom cell (a tracked shared access).
    fn check(&self, expect_id: usize, via: &str) {
        if self.id != expect_id {
            oracle("wrong-object", format!("{via}: handle for object {expect_id} reaches an object with id {:#x}", self.id));
        }
        // SAFETY: shared read of a plain integer.
        let c = self.canary.with(|p| unsafe { *p });
        if c != CANARY ^ expect_id as u64 {
            oracle("canary", format!("{via}: canary of object {expect_id} is {c:#x}"));
        }
    }
}

impl Drop for Payload {
    fn drop(&mut self) {
        if std::thread::panicking() {
            return; // unwinding out of a failed execution: the loom runtime may be gone
        }
        let id = self.id;
        if id >= MAXOBJ {
            record_fail("canary", format!("destructor ran on garbage (id {id:#x})"));
            return;
        }
        // SAFETY: exclusive write; loom reports it if some read is not ordered before it.
        let c = self.canary.with_mut(|p| unsafe {
            let old = *p;
            *p = 0xDEAD_DEAD_DEAD_DEAD;
            old
        });
        if c != CANARY ^ id as u64 {
            record_fail("canary", format!("destructor of object {id} found canary {c:#x}"));
        }
        // A destructor is arbitrary user code that takes time: let the other threads run in the
        // middle of it. The object's bytes must stay this object's until the destructor returns
        // (no re-use of the slot by a concurrent insert, no release of the slab by a concurrent
        // shrink_to_fit).
        loom::thread::yield_now();
        let (id_now, c_now) = (self.id, self.canary.with(|p| unsafe { *p }));
        if id_now != id || c_now != 0xDEAD_DEAD_DEAD_DEAD {
            record_fail(
                "reused-during-destructor",
                format!("the memory of object {id} changed while its destructor was still running (id {id_now:#x}, canary {c_now:#x}): slot re-used or released too early"),
            );
        }
        let live = LIVE[id].load(O::SeqCst);
        if live != 0 {
            record_fail("destroyed-before-last-handle", format!("object {id} destroyed while {live} handle(s) to it had not begun to drop"));
        }
        let before = DROPS[id].fetch_add(1, O::SeqCst);
        if before != 0 {
            record_fail("destroyed-twice", format!("destructor of object {id} ran {} times", before + 1));
        }
        log(format!("d{id}@{}", loom_tid()));
    }
}

// ---------------------------------------------------------------------------------------------
// The three pools behind one interface.
// ---------------------------------------------------------------------------------------------

trait Kind: 'static {
    type Pool: Clone + Send + 'static;
    type H: Clone + Deref<Target = Payload> + Send + 'static;
    type HM: Deref<Target = Payload> + Send + 'static;
    fn new_pool() -> Self::Pool;
    fn insert(p: &Self::Pool, v: Payload) -> Self::HM;
    fn into_shared(h: Self::HM) -> Self::H;
    fn into_inner(h: Self::HM) -> Payload;
    fn len(p: &Self::Pool) -> usize;
    fn is_empty(p: &Self::Pool) -> bool;
    fn capacity(p: &Self::Pool) -> usize;
    /// Visits every object; returns (objects visited, the iterator's own length claim).
    fn iterate(p: &Self::Pool, pre: &mut dyn FnMut(), f: &mut dyn FnMut(&Payload)) -> Option<(usize, usize)>;
    fn reserve(p: &Self::Pool);
    fn shrink(p: &Self::Pool);
}

struct KOpaque;
struct KPinned;
struct KBlind;

impl Kind for KOpaque {
    type Pool = OpaquePool;
    type H = Pooled<Payload>;
    type HM = PooledMut<Payload>;
    fn new_pool() -> OpaquePool {
        OpaquePool::with_layout_of::<Payload>()
    }
    fn insert(p: &OpaquePool, v: Payload) -> PooledMut<Payload> {
        p.insert(v)
    }
    fn into_shared(h: PooledMut<Payload>) -> Pooled<Payload> {
        h.into_shared()
    }
    fn into_inner(h: PooledMut<Payload>) -> Payload {
        h.into_inner()
    }
    fn len(p: &OpaquePool) -> usize {
        p.len()
    }
    fn is_empty(p: &OpaquePool) -> bool {
        p.is_empty()
    }
    fn capacity(p: &OpaquePool) -> usize {
        p.capacity()
    }
    fn iterate(p: &OpaquePool, pre: &mut dyn FnMut(), f: &mut dyn FnMut(&Payload)) -> Option<(usize, usize)> {
        Some(p.with_iter(|it| {
            pre();
            let claim = it.len();
            let mut n = 0;
            for ptr in it {
                // SAFETY: the pool lock is held for the duration of the closure, so the object is
                // in the pool; the harness never creates exclusive references to pooled objects.
                f(unsafe { ptr.cast::<Payload>().as_ref() });
                n += 1;
            }
            (n, claim)
        }))
    }
    fn reserve(p: &OpaquePool) {
        p.reserve(1);
    }
    fn shrink(p: &OpaquePool) {
        p.shrink_to_fit();
    }
}

impl Kind for KPinned {
    type Pool = PinnedPool<Payload>;
    type H = Pooled<Payload>;
    type HM = PooledMut<Payload>;
    fn new_pool() -> PinnedPool<Payload> {
        PinnedPool::new()
    }
    fn insert(p: &PinnedPool<Payload>, v: Payload) -> PooledMut<Payload> {
        p.insert(v)
    }
    fn into_shared(h: PooledMut<Payload>) -> Pooled<Payload> {
        h.into_shared()
    }
    fn into_inner(h: PooledMut<Payload>) -> Payload {
        h.into_inner()
    }
    fn len(p: &PinnedPool<Payload>) -> usize {
        p.len()
    }
    fn is_empty(p: &PinnedPool<Payload>) -> bool {
        p.is_empty()
    }
    fn capacity(p: &PinnedPool<Payload>) -> usize {
        p.capacity()
    }
    fn iterate(p: &PinnedPool<Payload>, pre: &mut dyn FnMut(), f: &mut dyn FnMut(&Payload)) -> Option<(usize, usize)> {
        Some(p.with_iter(|it| {
            pre();
            let claim = it.len();
            let mut n = 0;
            for ptr in it {
                // SAFETY: as for the opaque pool.
                f(unsafe { ptr.as_ref() });
                n += 1;
            }
            (n, claim)
        }))
    }
    fn reserve(p: &PinnedPool<Payload>) {
        p.reserve(1);
    }
    fn shrink(p: &PinnedPool<Payload>) {
        p.shrink_to_fit();
    }
}

impl Kind for KBlind {
    type Pool = BlindPool;
    type H = BlindPooled<Payload>;
    type HM = BlindPooledMut<Payload>;
    fn new_pool() -> BlindPool {
        BlindPool::new()
    }
    fn insert(p: &BlindPool, v: Payload) -> BlindPooledMut<Payload> {
        p.insert(v)
    }
    fn into_shared(h: BlindPooledMut<Payload>) -> BlindPooled<Payload> {
        h.into_shared()
    }
    fn into_inner(h: BlindPooledMut<Payload>) -> Payload {
        h.into_inner()
    }
    fn len(p: &BlindPool) -> usize {
        p.len()
    }
    fn is_empty(p: &BlindPool) -> bool {
        p.is_empty()
    }
    fn capacity(p: &BlindPool) -> usize {
        p.capacity_for::<Payload>()
    }
    fn iterate(_: &BlindPool, _: &mut dyn FnMut(), _: &mut dyn FnMut(&Payload)) -> Option<(usize, usize)> {
        None // BlindPool has no iteration API; `It` observes len()/is_empty()/capacity_for().
    }
    fn reserve(p: &BlindPool) {
        p.reserve_for::<Payload>(1);
    }
    fn shrink(p: &BlindPool) {
        p.shrink_to_fit();
    }
}

// ---------------------------------------------------------------------------------------------
// Programs.
// ---------------------------------------------------------------------------------------------

#[derive(Clone, Copy, Debug, PartialEq, Eq, PartialOrd, Ord, Hash)]
enum Op {
    Ins,
    Cl,
    Dr,
    Sh,
    Inn,
    DrU,
    It,
    Res,
    Shr,
    DP,
}

const ALPHABET: [Op; 10] = [Op::Ins, Op::Cl, Op::Dr, Op::Sh, Op::Inn, Op::DrU, Op::It, Op::Res, Op::Shr, Op::DP];

impl Op {
    fn name(self) -> &'static str {
        match self {
            Op::Ins => "Ins",
            Op::Cl => "Cl",
            Op::Dr => "Dr",
            Op::Sh => "Sh",
            Op::Inn => "Inn",
            Op::DrU => "DrU",
            Op::It => "It",
            Op::Res => "Res",
            Op::Shr => "Shr",
            Op::DP => "DP",
        }
    }
    fn parse(s: &str) -> Op {
        *ALPHABET.iter().find(|o| o.name() == s).unwrap_or_else(|| panic!("unknown op {s}"))
    }
}

/// Abstract per-worker resources, for precondition checking during generation.
#[derive(Clone, Copy)]
struct Abs {
    shared: usize,
    uniq: usize,
    pool: bool,
}

impl Abs {
    fn start() -> Self {
        Abs { shared: 1, uniq: 1, pool: true }
    }
    fn apply(mut self, op: Op) -> Option<Abs> {
        match op {
            Op::Ins => {
                if !self.pool {
                    return None;
                }
                self.uniq += 1;
            }
            Op::Cl => {
                if self.shared == 0 {
                    return None;
                }
                self.shared += 1;
            }
            Op::Dr => {
                if self.shared == 0 {
                    return None;
                }
                self.shared -= 1;
            }
            Op::Sh => {
                if self.uniq == 0 {
                    return None;
                }
                self.uniq -= 1;
                self.shared += 1;
            }
            Op::Inn | Op::DrU => {
                if self.uniq == 0 {
                    return None;
                }
                self.uniq -= 1;
            }
            Op::It | Op::Res | Op::Shr => {
                if !self.pool {
                    return None;
                }
            }
            Op::DP => {
                if !self.pool {
                    return None;
                }
                self.pool = false;
            }
        }
        Some(self)
    }
}

/// Every valid operation sequence of length `min..=max`.
fn sequences(alphabet: &[Op], min: usize, max: usize) -> Vec<Vec<Op>> {
    let mut out = Vec::new();
    fn rec(alphabet: &[Op], cur: &mut Vec<Op>, st: Abs, min: usize, max: usize, out: &mut Vec<Vec<Op>>) {
        if cur.len() >= min {
            out.push(cur.clone());
        }
        if cur.len() == max {
            return;
        }
        for &op in alphabet {
            if let Some(n) = st.apply(op) {
                cur.push(op);
                rec(alphabet, cur, n, min, max, out);
                cur.pop();
            }
        }
    }
    rec(alphabet, &mut Vec::new(), Abs::start(), min, max, &mut out);
    out
}

/// Every multiset of `threads` sequences (workers are interchangeable: sorted tuples only).
fn multisets(seqs: &[Vec<Op>], threads: usize) -> Vec<Vec<Vec<Op>>> {
    let mut out = Vec::new();
    fn rec(seqs: &[Vec<Op>], from: usize, left: usize, cur: &mut Vec<Vec<Op>>, out: &mut Vec<Vec<Vec<Op>>>) {
        if left == 0 {
            out.push(cur.clone());
            return;
        }
        for i in from..seqs.len() {
            cur.push(seqs[i].clone());
            rec(seqs, i, left - 1, cur, out);
            cur.pop();
        }
    }
    rec(seqs, 0, threads, &mut Vec::new(), &mut out);
    out
}

#[derive(Clone, Debug)]
struct Program {
    kind: String,
    threads: Vec<Vec<Op>>,
}

impl Program {
    fn name(&self) -> String {
        let t: Vec<String> = self.threads.iter().map(|s| s.iter().map(|o| o.name()).collect::<Vec<_>>().join(",")).collect();
        format!("{}|{}", self.kind, t.join("|"))
    }
    fn parse(s: &str) -> Program {
        let mut parts = s.split('|');
        let kind = parts.next().unwrap().to_string();
        let threads = parts.map(|t| t.split(',').filter(|x| !x.is_empty()).map(Op::parse).collect()).collect();
        Program { kind, threads }
    }
    /// Witness class: pool kind, number of workers, the set of operations involved.
    fn shape(&self) -> String {
        let ops: BTreeSet<&str> = self.threads.iter().flatten().map(|o| o.name()).collect();
        format!("{}:{}t:{}", self.kind, self.threads.len(), ops.into_iter().collect::<Vec<_>>().join("+"))
    }
    /// A program is a collision program when at least two workers act and some operation changes
    /// shared state (everything except a lone reserve/iterate does).
    fn total_ops(&self) -> usize {
        self.threads.iter().map(Vec::len).sum()
    }
}

// ---------------------------------------------------------------------------------------------
// One execution.
// ---------------------------------------------------------------------------------------------

struct Worker<K: Kind> {
    t: usize,
    pool: Option<K::Pool>,
    shared: Vec<(usize, K::H)>,
    uniq: Vec<(usize, K::HM)>,
    inserts: usize,
    obs: Vec<String>,
}

impl<K: Kind> Worker<K> {
    fn check_all(&self, after: &str) {
        for (id, h) in &self.shared {
            h.check(*id, after);
        }
        for (id, h) in &self.uniq {
            h.check(*id, after);
        }
        check_fail();
    }

    fn step(&mut self, op: Op) {
        match op {
            Op::Ins => {
                let id = 4 + self.t * 3 + self.inserts;
                self.inserts += 1;
                INS_STARTED[id].store(1, O::SeqCst);
                LIVE[id].store(1, O::SeqCst);
                let h = K::insert(self.pool.as_ref().expect("pool"), Payload::new(id));
                INS_DONE[id].store(1, O::SeqCst);
                self.uniq.push((id, h));
            }
            Op::Cl => {
                let (id, h) = self.shared.last().expect("shared");
                LIVE[*id].fetch_add(1, O::SeqCst);
                let c = (*id, h.clone());
                self.shared.push(c);
            }
            Op::Dr => {
                let (id, h) = self.shared.pop().expect("shared");
                h.check(id, "before drop");
                LIVE[id].fetch_sub(1, O::SeqCst);
                drop(h);
            }
            Op::Sh => {
                let (id, h) = self.uniq.pop().expect("uniq");
                let s = K::into_shared(h);
                self.shared.push((id, s));
            }
            Op::Inn => {
                let (id, h) = self.uniq.pop().expect("uniq");
                LIVE[id].fetch_sub(1, O::SeqCst);
                let v = K::into_inner(h);
                v.check(id, "value returned by into_inner");
                if DROPS[id].load(O::SeqCst) != 0 {
                    oracle("destroyed-twice", format!("object {id} was destroyed by the pool and also returned by into_inner"));
                }
                drop(v);
            }
            Op::DrU => {
                let (id, h) = self.uniq.pop().expect("uniq");
                h.check(id, "before drop");
                LIVE[id].fetch_sub(1, O::SeqCst);
                drop(h);
            }
            Op::It => {
                let pool = self.pool.as_ref().expect("pool");
                let mut lo = 0;
                let mut seen = Vec::new();
                let r = K::iterate(
                    pool,
                    &mut || {
                        // Objects whose insert returned and that still have a handle which has not
                        // begun to drop are certainly in the pool for the whole closure.
                        lo = (0..MAXOBJ).filter(|&i| INS_DONE[i].load(O::SeqCst) == 1 && LIVE[i].load(O::SeqCst) > 0).count();
                    },
                    &mut |p: &Payload| {
                        if p.id >= MAXOBJ {
                            oracle("canary", format!("iteration yields garbage (id {:#x})", p.id));
                        }
                        p.check(p.id, "iteration");
                        seen.push(p.id);
                    },
                );
                match r {
                    Some((n, claim)) => {
                        // Possibly present: insert begun, destructor not run (into_inner removes
                        // without destructor: counted as possibly present, an upper bound only).
                        let hi = (0..MAXOBJ).filter(|&i| INS_STARTED[i].load(O::SeqCst) == 1 && DROPS[i].load(O::SeqCst) == 0).count();
                        let distinct: BTreeSet<usize> = seen.iter().copied().collect();
                        if distinct.len() != seen.len() {
                            oracle("iteration", format!("iteration yields an object twice: {seen:?}"));
                        }
                        if n != claim {
                            oracle("iteration", format!("iterator claims {claim} objects, yields {n}"));
                        }
                        if n < lo || n > hi {
                            oracle("iteration", format!("iteration yields {n} objects {seen:?}; certainly present {lo}, possibly present {hi}"));
                        }
                        self.obs.push(format!("it{n}"));
                    }
                    None => {
                        let n = K::len(pool);
                        let e = K::is_empty(pool);
                        let cap = K::capacity(pool);
                        let hi = (0..MAXOBJ).filter(|&i| INS_STARTED[i].load(O::SeqCst) == 1).count();
                        if n > hi {
                            oracle("iteration", format!("len() = {n} but only {hi} objects were ever inserted"));
                        }
                        // This worker's own handles pin objects in the pool between the two calls.
                        let mine = self.shared.iter().map(|x| x.0).chain(self.uniq.iter().map(|x| x.0)).collect::<BTreeSet<_>>().len();
                        if n < mine || (e && mine > 0) || cap < mine {
                            oracle("iteration", format!("len()={n} is_empty()={e} capacity={cap} while this thread holds handles to {mine} objects"));
                        }
                        self.obs.push(format!("len{n}"));
                    }
                }
            }
            Op::Res => {
                let pool = self.pool.as_ref().expect("pool");
                K::reserve(pool);
            }
            Op::Shr => K::shrink(self.pool.as_ref().expect("pool")),
            Op::DP => drop(self.pool.take().expect("pool")),
        }
        self.check_all(op.name());
    }
}

fn model_body<K: Kind>(prog: &Program) -> String {
    reset_tables();
    let nt = prog.threads.len();
    infinity_pool::verif::set_slab_capacity_override(Some(2));
    let pool = K::new_pool();
    // Object S.
    INS_STARTED[0].store(1, O::SeqCst);
    LIVE[0].store(1, O::SeqCst);
    let s = K::into_shared(K::insert(&pool, Payload::new(0)));
    INS_DONE[0].store(1, O::SeqCst);
    if K::capacity(&pool) != 2 {
        panic!("ENGINE slab capacity override not in force: capacity {}", K::capacity(&pool));
    }
    let mut workers: Vec<Worker<K>> = Vec::new();
    for t in 0..nt {
        let id = 1 + t;
        INS_STARTED[id].store(1, O::SeqCst);
        LIVE[id].store(1, O::SeqCst);
        let u = K::insert(&pool, Payload::new(id));
        INS_DONE[id].store(1, O::SeqCst);
        LIVE[0].fetch_add(1, O::SeqCst);
        workers.push(Worker { t, pool: Some(pool.clone()), shared: vec![(0, s.clone())], uniq: vec![(id, u)], inserts: 0, obs: Vec::new() });
    }
    if K::len(&pool) != nt + 1 {
        oracle("len", format!("len() = {} after {} inserts", K::len(&pool), nt + 1));
    }
    // The main thread keeps nothing: every count can reach zero on a worker.
    LIVE[0].fetch_sub(1, O::SeqCst);
    drop(s);
    drop(pool);
    infinity_pool::verif::set_slab_capacity_override(None);

    // Worker 0 runs on the model's main thread (after the others were spawned): same set of
    // interleavings, one thread stack less per execution.
    let mut joins = Vec::new();
    let mut first: Option<(Worker<K>, Vec<Op>)> = None;
    for (mut w, ops) in workers.into_iter().zip(prog.threads.iter().cloned()) {
        if first.is_none() {
            first = Some((w, ops));
            continue;
        }
        joins.push(loom::thread::spawn(move || {
            for op in ops {
                w.step(op);
            }
            w
        }));
    }
    let mut done: Vec<Worker<K>> = Vec::new();
    {
        let (mut w, ops) = first.expect("at least one worker");
        for op in ops {
            w.step(op);
        }
        done.push(w);
    }
    for j in joins {
        match j.join() {
            Ok(w) => done.push(w),
            Err(p) => std::panic::resume_unwind(p),
        }
    }
    check_fail();

    // Quiescence.
    let mut held: BTreeMap<usize, usize> = BTreeMap::new();
    for w in &done {
        for (id, _) in &w.shared {
            *held.entry(*id).or_default() += 1;
        }
        for (id, _) in &w.uniq {
            *held.entry(*id).or_default() += 1;
        }
    }
    let check_counts = |held: &BTreeMap<usize, usize>, when: &str| {
        for id in 0..MAXOBJ {
            let d = DROPS[id].load(O::SeqCst);
            let inserted = INS_STARTED[id].load(O::SeqCst) == 1;
            let want = usize::from(inserted && !held.contains_key(&id));
            if d != want {
                let kind = if d > want { if d > 1 { "destroyed-twice" } else { "destroyed-before-last-handle" } } else { "not-destroyed" };
                oracle(kind, format!("{when}: object {id} destroyed {d} time(s), expected {want} (handles still held: {})", held.get(&id).copied().unwrap_or(0)));
            }
            let l = LIVE[id].load(O::SeqCst);
            if l != held.get(&id).copied().unwrap_or(0) {
                panic!("ENGINE live-handle table out of step for object {id}: {l}");
            }
        }
    };
    check_counts(&held, "after join");
    let mut final_obs = String::new();
    let mut pools: Vec<K::Pool> = Vec::new();
    for w in &mut done {
        w.check_all("after join");
        if let Some(p) = w.pool.take() {
            pools.push(p);
        }
    }
    if let Some(p) = pools.first() {
        let n = K::len(p);
        if n != held.len() {
            oracle("len", format!("after join len() = {n}, live objects = {} {:?}", held.len(), held.keys().collect::<Vec<_>>()));
        }
        if K::is_empty(p) != held.is_empty() {
            oracle("len", format!("after join is_empty() = {} with {} live objects", K::is_empty(p), held.len()));
        }
        if K::capacity(p) < n {
            oracle("len", format!("after join capacity {} < len {n}", K::capacity(p)));
        }
        let mut ids = BTreeSet::new();
        if let Some((cnt, claim)) = K::iterate(p, &mut || {}, &mut |x: &Payload| {
            x.check(x.id, "iteration after join");
            ids.insert(x.id);
        }) {
            if cnt != n || claim != n || ids != held.keys().copied().collect() {
                oracle("iteration", format!("after join iteration yields {cnt} (claims {claim}) ids {ids:?}; live {:?}", held.keys().collect::<Vec<_>>()));
            }
        }
        final_obs = format!("len{n}");
    } else {
        final_obs.push_str("nopool");
    }
    drop(pools);
    // Every pool value is gone now; the storage must stay valid for the surviving handles.
    for w in &done {
        w.check_all("after the last pool value was dropped");
    }
    // Drop the surviving handles one at a time.
    for w in &mut done {
        while let Some((id, h)) = w.shared.pop() {
            h.check(id, "before final drop");
            LIVE[id].fetch_sub(1, O::SeqCst);
            drop(h);
            let e = held.get_mut(&id).unwrap();
            *e -= 1;
            if *e == 0 {
                held.remove(&id);
            }
            check_fail();
            check_counts(&held, "final drops");
        }
        while let Some((id, h)) = w.uniq.pop() {
            h.check(id, "before final drop");
            LIVE[id].fetch_sub(1, O::SeqCst);
            drop(h);
            held.remove(&id);
            check_fail();
            check_counts(&held, "final drops");
        }
    }
    check_fail();
    let mut obs: Vec<String> = done.iter().map(|w| w.obs.join(",")).collect();
    obs.push(final_obs);
    let lg = LOG.lock().unwrap_or_else(|p| p.into_inner()).join(" ");
    format!("{} / {}", obs.join(";"), lg)
}

fn run_body(prog: &Program) -> String {
    match prog.kind.as_str() {
        "O" => model_body::<KOpaque>(prog),
        "P" => model_body::<KPinned>(prog),
        "B" => model_body::<KBlind>(prog),
        other => panic!("unknown pool kind {other}"),
    }
}

// ---------------------------------------------------------------------------------------------
// Child: a batch of programs, each under loom. Parent: fan out, aggregate.
// ---------------------------------------------------------------------------------------------

fn preemption_bound() -> Option<usize> {
    match std::env::var("C03_BOUND").ok().as_deref() {
        Some("none") => None,
        Some(n) => n.parse().ok(),
        None => Some(2),
    }
}

fn run_program_under_loom(prog: &Program) -> Result<(u64, BTreeSet<String>), String> {
    let iters = std::sync::Arc::new(AtomicUsize::new(0));
    let outcomes = std::sync::Arc::new(StdMutex::new(BTreeSet::new()));
    let (i2, o2, p2) = (iters.clone(), outcomes.clone(), prog.clone());
    let res = std::panic::catch_unwind(std::panic::AssertUnwindSafe(move || {
        let mut b = loom::model::Builder::new();
        b.preemption_bound = preemption_bound();
        b.max_branches = 100_000;
        b.check(move || {
            i2.fetch_add(1, O::SeqCst);
            let o = run_body(&p2);
            o2.lock().unwrap_or_else(|p| p.into_inner()).insert(o);
        });
    }));
    match res {
        Ok(()) => Ok((iters.load(O::SeqCst) as u64, outcomes.lock().unwrap_or_else(|p| p.into_inner()).clone())),
        Err(p) => Err(format!("{} (after {} executions)", vcommon::panic_message(&*p), iters.load(O::SeqCst))),
    }
}

fn child(job: &str) {
    let mut results = Vec::new();
    for name in job.split(';').filter(|s| !s.is_empty()) {
        let prog = Program::parse(name);
        match run_program_under_loom(&prog) {
            Ok((n, outs)) => {
                let total = outs.len();
                results.push(json!({"prog": name, "iters": n, "n_outcomes": total, "outcomes": outs.into_iter().take(24).collect::<Vec<_>>() }));
            }
            Err(msg) => {
                results.push(json!({"prog": name, "violation": msg}));
                // State after a failed loom model is not trusted: stop this batch; the parent
                // re-runs the remaining programs of the batch individually.
                break;
            }
        }
    }
    child_result(&json!({ "results": results }));
}

fn classify(msg: &str) -> String {
    if let Some(rest) = msg.strip_prefix("ORACLE[") {
        return rest.split(']').next().unwrap_or("oracle").to_string();
    }
    if msg.starts_with("ENGINE") {
        return "engine".to_string();
    }
    if msg.contains("Causality violation") || msg.contains("causality") {
        return "causality".to_string();
    }
    if msg.contains("deadlock") || msg.contains("Deadlock") {
        return "deadlock".to_string();
    }
    if msg.contains("leaked") || msg.contains("Leaked") {
        return "storage-leaked".to_string();
    }
    if msg.contains("child aborted") {
        return "abort".to_string();
    }
    "panic".to_string()
}

fn main() {
    if let Some(job) = child_job() {
        // Panics are data; the first one is also written to stderr so that it survives an abort
        // (a second panic while unwinding, e.g. inside a destructor).
        static FIRST: std::sync::atomic::AtomicBool = std::sync::atomic::AtomicBool::new(true);
        std::panic::set_hook(Box::new(|info| {
            if FIRST.swap(false, O::SeqCst) {
                let msg = info.payload().downcast_ref::<&str>().map(|s| (*s).to_string()).or_else(|| info.payload().downcast_ref::<String>().cloned()).unwrap_or_default();
                eprintln!("@@PANIC {}", msg.replace('\n', " "));
            }
        }));
        child(&job);
        return;
    }
    let thorough = vcommon::is_thorough();
    let mut c = Check::new("C03", "model_checking");

    if let Ok(path) = std::env::var("VERIF_REPLAY") {
        let v: Value = vcommon::serde_json::from_str(&std::fs::read_to_string(&path).expect("replay file")).expect("json");
        let Some(name) = v["replay"]["program"].as_str() else {
            println!("replay file is not a loom-stage witness; skipping stage c03");
            std::process::exit(0);
        };
        let bound = v["replay"]["bound"].as_str().unwrap_or("2").to_string();
        println!("replaying {name} (bound {bound})");
        let r = vcommon::run_jobs_env(&[name.to_string()], 1, Duration::from_secs(1800), &[("C03_BOUND".to_string(), bound)]);
        println!("{}\n{}", r[0].stdout, r[0].stderr);
        std::process::exit(0);
    }

    // ----- program families -------------------------------------------------------------------
    // FULL = every operation; HANDLE = operations that create/destroy handles, objects or pool
    // values (no It/Res/Shr); COUNT = operations that move a reference count of an existing object
    // or of the pool storage.
    const FULL: &[Op] = &ALPHABET;
    const HANDLE: &[Op] = &[Op::Ins, Op::Cl, Op::Dr, Op::Sh, Op::Inn, Op::DrU, Op::DP];
    const COUNT: &[Op] = &[Op::Cl, Op::Dr, Op::Sh, Op::DrU, Op::DP];
    struct Family {
        label: &'static str,
        kinds: Vec<&'static str>,
        nt: usize,
        alphabet: &'static [Op],
        min: usize,
        max: usize,
        max_total: usize,
        bound: &'static str,
    }
    let all = vec!["O", "P", "B"];
    let families: Vec<Family> = if thorough {
        vec![
            Family { label: "2 threads x <=2 ops, full alphabet", kinds: all.clone(), nt: 2, alphabet: FULL, min: 0, max: 2, max_total: 4, bound: "3" },
            Family { label: "3 threads x 1 op, full alphabet", kinds: all.clone(), nt: 3, alphabet: FULL, min: 1, max: 1, max_total: 3, bound: "3" },
            Family { label: "3 threads x 1..2 ops, <=4 ops in total, handle alphabet", kinds: all.clone(), nt: 3, alphabet: HANDLE, min: 1, max: 2, max_total: 4, bound: "3" },
            Family { label: "3 threads x exactly 2 ops, count alphabet", kinds: vec!["O", "B"], nt: 3, alphabet: COUNT, min: 2, max: 2, max_total: 6, bound: "3" },
        ]
    } else {
        vec![
            Family { label: "2 threads x <=2 ops, <=3 ops in total, full alphabet", kinds: vec!["O"], nt: 2, alphabet: FULL, min: 0, max: 2, max_total: 3, bound: "2" },
            Family { label: "2 threads x exactly 2 ops, handle alphabet", kinds: vec!["O"], nt: 2, alphabet: HANDLE, min: 2, max: 2, max_total: 4, bound: "2" },
            Family { label: "3 threads x 1 op, full alphabet", kinds: vec!["O"], nt: 3, alphabet: FULL, min: 1, max: 1, max_total: 3, bound: "2" },
            // The other two pool types share the slab code but have their own thread-safe wrappers
            // (added after seeded change C02b showed what a quick tier that samples types misses).
            Family { label: "2 threads x <=2 ops, <=2 ops in total, full alphabet (PinnedPool, BlindPool)", kinds: vec!["P", "B"], nt: 2, alphabet: FULL, min: 0, max: 2, max_total: 2, bound: "2" },
        ]
    };
    let family_filter = std::env::var("C03_FAMILY").ok().and_then(|s| s.parse::<usize>().ok());
    let limit = std::env::var("C03_LIMIT").ok().and_then(|s| s.parse::<usize>().ok());
    let list_only = std::env::var("C03_LIST").is_ok();

    let mut per_prog: BTreeMap<String, Value> = BTreeMap::new();
    let mut bound_of: BTreeMap<String, String> = BTreeMap::new();
    let mut all_names: Vec<String> = Vec::new();
    let mut seen_names: BTreeSet<String> = BTreeSet::new();
    let mut family_desc = Vec::new();
    for (fi, fam) in families.iter().enumerate() {
        if family_filter.is_some_and(|f| f != fi) {
            continue;
        }
        let (nt, max) = (&fam.nt, &fam.max);
        let bound = std::env::var("C03_BOUND").unwrap_or_else(|_| fam.bound.to_string());
        let seqs = sequences(fam.alphabet, fam.min, fam.max);
        let mut names = Vec::new();
        for k in &fam.kinds {
            for threads in multisets(&seqs, fam.nt) {
                let p = Program { kind: k.to_string(), threads };
                if p.total_ops() == 0 || p.total_ops() > fam.max_total {
                    continue;
                }
                // Families may overlap; a program is run once (at the first family's bound; all
                // families of a tier use the same bound).
                if seen_names.insert(p.name()) {
                    names.push(p.name());
                }
            }
        }
        if let Some(l) = limit {
            // Debug aid only (never set by ./check): evenly spaced subset.
            let step = (names.len() / l.max(1)).max(1);
            names = names.into_iter().step_by(step).collect();
            c.cap_hit("C03_LIMIT set: subset of programs");
        }
        family_desc.push(json!({"family": fam.label, "kinds": fam.kinds, "threads": fam.nt, "alphabet": fam.alphabet.iter().map(|o| o.name()).collect::<Vec<_>>(), "ops_per_thread": format!("{}..={}", fam.min, fam.max), "max_total_ops": fam.max_total, "sequences_per_thread": seqs.len(), "new_programs": names.len(), "preemption_bound": bound}));
        if list_only {
            println!("family {fi}: {} -> {} programs", fam.label, names.len());
            if fi + 1 == families.len() {
                std::process::exit(0);
            }
            continue;
        }
        let batch = if *nt == 3 && *max >= 2 { 4 } else { 24 };
        let jobs: Vec<String> = names.chunks(batch).map(|c| c.join(";")).collect();
        let env = vec![("C03_BOUND".to_string(), bound.clone())];
        let timeout = Duration::from_secs(if thorough { 3000 } else { 240 });
        let results = vcommon::run_jobs_env(&jobs, vcommon::default_parallelism(), timeout, &env);
        let mut retry: Vec<String> = Vec::new();
        for (job, r) in jobs.iter().zip(&results) {
            let done: Vec<Value> = r.result_json().and_then(|v| v["results"].as_array().cloned()).unwrap_or_default();
            for d in &done {
                per_prog.insert(d["prog"].as_str().unwrap().to_string(), d.clone());
            }
            for n in job.split(';') {
                if !per_prog.contains_key(n) {
                    retry.push(n.to_string());
                }
            }
        }
        if !retry.is_empty() {
            let rr = vcommon::run_jobs_env(&retry, vcommon::default_parallelism(), timeout, &env);
            for (n, r) in retry.iter().zip(&rr) {
                match r.result_json().and_then(|v| v["results"].as_array().and_then(|a| a.first().cloned())) {
                    Some(d) => {
                        per_prog.insert(n.clone(), d);
                    }
                    None => {
                        if r.timed_out {
                            c.cap_hit(&format!("program {n} did not finish within {}s", timeout.as_secs()));
                        } else {
                            // The child died without a result (abort inside loom / double panic):
                            // deterministic and replayable, reported with the stderr tail.
                            let tail: String = r.stderr.lines().filter(|l| !l.starts_with("@@PANIC")).rev().take(4).collect::<Vec<_>>().join(" | ");
                            let first = r.stderr.lines().find_map(|l| l.strip_prefix("@@PANIC ")).unwrap_or("");
                            let msg = if first.is_empty() { format!("child aborted: {tail}") } else { format!("{first} [then the child aborted: {tail}]") };
                            per_prog.insert(n.clone(), json!({"prog": n, "violation": msg}));
                        }
                    }
                }
            }
        }
        for n in &names {
            bound_of.insert(n.clone(), bound.clone());
        }
        all_names.extend(names);
    }

    // ----- aggregate --------------------------------------------------------------------------
    let mut total_iters = 0_u64;
    let mut multi = 0_u64;
    let mut max_outcomes = 0_u64;
    let mut dropper_threads: BTreeSet<String> = BTreeSet::new();
    for (name, d) in &per_prog {
        let prog = Program::parse(name);
        c.evaluations += 1;
        if let Some(msg) = d.get("violation").and_then(Value::as_str) {
            let kind = classify(msg);
            if kind == "engine" {
                c.engine_failure(&format!("{name}: {msg}"));
            }
            c.violation(
                &format!("{kind}:{}", prog.shape()),
                &format!("{name}: {msg}"),
                json!({"program": name, "bound": bound_of.get(name), "message": msg, "stage": "c03"}),
            );
            continue;
        }
        let iters = d["iters"].as_u64().unwrap_or(0);
        total_iters += iters;
        let outs = d["n_outcomes"].as_u64().unwrap_or(0);
        max_outcomes = max_outcomes.max(outs);
        if outs > 1 {
            multi += 1;
        }
        c.distinct_hash(vcommon::hash_str(name));
        for o in d["outcomes"].as_array().into_iter().flatten() {
            let o = o.as_str().unwrap_or("?");
            // Outcome class: where object S was destroyed + final observation.
            let s_dropper = o.split(' ').find(|t| t.starts_with("d0@")).unwrap_or("d0@main-final");
            dropper_threads.insert(s_dropper.to_string());
            let fin = o.split(" / ").next().unwrap_or("").rsplit(';').next().unwrap_or("");
            c.outcome(&format!("S:{s_dropper} end:{fin}"));
        }
        if c.samples.len() < 5 && outs > 2 {
            c.sample(json!({"program": name, "executions": iters, "outcomes": d["outcomes"]}));
        }
    }
    if per_prog.len() != all_names.len() && c.caps_hit.is_empty() {
        c.engine_failure(&format!("{} of {} programs produced no result", all_names.len() - per_prog.len(), all_names.len()));
    }
    c.states = total_iters;
    c.transitions = total_iters;
    c.traces_validated = total_iters;
    c.rule = format!(
        "programs = ALL multisets of per-worker op sequences over the family's alphabet within the family's length limits (all sequences whose preconditions hold; workers start identical: pool clone + clone of the SAME shared handle S + own unique handle, slab capacity 2, main thread keeps nothing) for families {}; every program explored by loom over ALL interleavings within the preemption bound; distinct = program that ran to completion on every execution; states = loom executions",
        vcommon::serde_json::to_string(&family_desc).unwrap()
    );
    c.extra.insert("families".into(), json!(family_desc));
    c.extra.insert("programs".into(), json!(all_names.len()));
    c.extra.insert("loom_executions".into(), json!(total_iters));
    c.extra.insert("programs_with_more_than_one_outcome".into(), json!(multi));
    c.extra.insert("max_outcomes_of_one_program".into(), json!(max_outcomes));
    c.extra.insert("threads_that_destroyed_S".into(), json!(dropper_threads));
    c.assumptions.push("loom models the Arc reference counts and the pool Mutex; slab memory itself is not a loom object: a destructor racing with a handle access is caught through the payload's loom cell, other unsynchronised slab accesses only through their effects (canary, counts)".into());
    c.assumptions.push("interleavings are exhaustive up to the stated preemption bound (loom DPOR); 2..3 worker threads, not 16".into());
    if c.violation_count() == 0 && c.caps_hit.is_empty() {
        if multi == 0 {
            c.engine_failure("no program showed more than one outcome: nothing collided (vacuous exploration)");
        }
        if dropper_threads.len() < 2 {
            c.engine_failure("object S was always destroyed by the same thread: the shared handle never raced");
        }
    }
    c.finish();
}
